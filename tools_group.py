#!/usr/bin/env python3
"""group the replay files of one property by message shape (debugging aid)"""
import json,glob,re,collections,sys
p=sys.argv[1]
c=collections.Counter(); ex={}
for f in glob.glob(f'/verif/replays/{p}/*.json'):
    d=json.load(open(f)); w=d['what']
    k=re.sub(r'[-\d.+]+','#',w)[:int(sys.argv[2]) if len(sys.argv)>2 else 80]
    c[k]+=1; ex.setdefault(k,(d['key'],w[:300]))
for k,v in c.most_common(40): print(v,k,'\n    ',ex[k])

#!/bin/bash
# run every registered check (default tier quick); exit 1 if any check is not silent
tier="${1:-quick}"; rc=0
cd "$(dirname "$0")"
for c in $(python3 -c "import json; print(' '.join(c['property_id'] for c in json.load(open('MANIFEST.json'))['checks']))"); do
  out=$(./check $c $tier 2>&1); code=$?
  echo "$out" | grep -E "^\[C|^KNOWN-FINDING|^VIOLATION" | cut -c1-220 | head -5
  [ $code -ne 0 ] && { echo "!! $c exit $code"; rc=1; }
done
exit $rc

"""Parser / evaluator for the plain-text ('code') rendering of formulas (C17).

Ordinary arithmetic precedence, ``^`` for powers (right associative, binds tighter than unary
minus on its left, admits a signed exponent), function-call syntax.  Symbols are recognised from
the display names of the expression's own atoms (longest match first), so a display name such as
``t_1/2`` or ``min(abs(V))`` is one token.  Evaluation is complex-valued (mpmath).
"""
from __future__ import annotations

import re
from typing import Any, Callable, Optional

import mpmath

mp = mpmath.mp


class ParseError(Exception):
    pass


class Opaque(Exception):
    """the text parses, but contains a construct outside the arithmetic core (Derivative(...),
    Integral(...), Sum(...), matrices): structure only"""


NUMBER = re.compile(r"\d+\.\d*(?:[eE][-+]?\d+)?|\d+(?:[eE][-+]?\d+)?|\.\d+")
IDENT = re.compile(r"[A-Za-z_][A-Za-z_0-9]*")

FUNCS: dict[str, Callable[..., Any]] = {
    "sqrt": mpmath.sqrt, "exp": mpmath.exp, "sin": mpmath.sin, "cos": mpmath.cos, "tan": mpmath.tan,
    "cot": mpmath.cot, "sec": mpmath.sec, "csc": mpmath.csc, "asin": mpmath.asin, "acos": mpmath.acos,
    "atan": mpmath.atan, "acot": mpmath.acot, "sinh": mpmath.sinh, "cosh": mpmath.cosh,
    "tanh": mpmath.tanh, "coth": mpmath.coth, "asinh": mpmath.asinh, "acosh": mpmath.acosh,
    "atanh": mpmath.atanh, "Abs": abs, "abs": abs, "sign": mpmath.sign, "re": mpmath.re,
    "im": mpmath.im, "conjugate": mpmath.conj, "factorial": mpmath.factorial,
    "floor": mpmath.floor, "ceiling": mpmath.ceil, "erf": mpmath.erf, "gamma": mpmath.gamma,
    "atan2": lambda y, x: mpmath.atan2(mpmath.re(y), mpmath.re(x)),
    "Min": lambda *a: min(a, key=lambda z: mpmath.re(z)),
    "Max": lambda *a: max(a, key=lambda z: mpmath.re(z)),
    "min": lambda *a: min(a, key=lambda z: mpmath.re(z)),
    "max": lambda *a: max(a, key=lambda z: mpmath.re(z)),
}
CONSTS = {"pi": lambda: mpmath.pi, "E": lambda: mpmath.e, "I": lambda: mpmath.mpc(0, 1),
    "oo": lambda: mpmath.inf}


def _log(*a: Any) -> Any:
    if len(a) == 1:
        return mpmath.log(a[0])
    return mpmath.log(a[0]) / mpmath.log(a[1])


FUNCS["log"] = _log


class Node:

    def __init__(self, kind: str, *args: Any):
        self.kind, self.args = kind, args

    def __repr__(self) -> str:
        return f"{self.kind}({', '.join(map(repr, self.args))})"


class Parser:

    def __init__(self, text: str, names: list[str]):
        self.text = text
        self.names = sorted(set(n for n in names if n), key=len, reverse=True)
        self.toks = self._tokenize()
        self.i = 0

    def _tokenize(self) -> list[tuple[str, str]]:
        t, i, out = self.text, 0, []
        while i < len(t):
            ch = t[i]
            if ch.isspace():
                i += 1
                continue
            # known display names first (they may contain operators or brackets)
            hit = None
            for n in self.names:
                if t.startswith(n, i):
                    # a name must not be glued to a longer identifier
                    j = i + len(n)
                    if j < len(t) and (t[j].isalnum() or t[j] == "_") and (n[-1].isalnum() or n[-1] ==
                            "_"):
                        continue
                    if i > 0 and (t[i - 1].isalnum() or t[i - 1] == "_") and (n[0].isalnum() or n[0]
                            == "_"):
                        continue
                    hit = n
                    break
            if hit is not None:
                out.append(("name", hit))
                i += len(hit)
                continue
            m = NUMBER.match(t, i)
            if m:
                out.append(("num", m.group()))
                i = m.end()
                continue
            m = IDENT.match(t, i)
            if m:
                out.append(("id", m.group()))
                i = m.end()
                continue
            if ch in "+-*/^(),=[]<>":
                if t.startswith(">=", i) or t.startswith("<=", i):
                    out.append(("op", t[i:i + 2]))
                    i += 2
                else:
                    out.append(("op", ch))
                    i += 1
                continue
            raise ParseError(f"unexpected character {ch!r} at {i} in {t!r}")
        return out

    # -- recursive descent -----------------------------------------------------------------------
    def peek(self) -> Optional[tuple[str, str]]:
        return self.toks[self.i] if self.i < len(self.toks) else None

    def eat(self, val: Optional[str] = None) -> tuple[str, str]:
        tok = self.peek()
        if tok is None or (val is not None and tok[1] != val):
            raise ParseError(f"expected {val!r}, got {tok!r} in {self.text!r}")
        self.i += 1
        return tok

    def parse(self) -> Node:
        e = self.relation()
        if self.peek() is not None:
            raise ParseError(f"trailing input {self.toks[self.i:]!r} in {self.text!r}")
        return e

    def relation(self) -> Node:
        lhs = self.expr()
        tok = self.peek()
        if tok and tok[1] in ("=", "<", ">", "<=", ">="):
            self.eat()
            rhs = self.expr()
            return Node("rel", tok[1], lhs, rhs)
        return lhs

    def expr(self) -> Node:
        n = self.term()
        while True:
            tok = self.peek()
            if tok and tok[0] == "op" and tok[1] in "+-":
                self.eat()
                r = self.term()
                n = Node("add" if tok[1] == "+" else "sub", n, r)
            else:
                return n

    def term(self) -> Node:
        n = self.unary()
        while True:
            tok = self.peek()
            if tok and tok[0] == "op" and tok[1] in "*/":
                self.eat()
                r = self.unary()
                n = Node("mul" if tok[1] == "*" else "div", n, r)
            else:
                return n

    def unary(self) -> Node:
        tok = self.peek()
        if tok and tok == ("op", "-"):
            self.eat()
            return Node("neg", self.unary())
        if tok and tok == ("op", "+"):
            self.eat()
            return self.unary()
        return self.power()

    def power(self) -> Node:
        base = self.atom()
        tok = self.peek()
        if tok and tok == ("op", "^"):
            self.eat()
            return Node("pow", base, self.signed_power())
        return base

    def signed_power(self) -> Node:
        tok = self.peek()
        if tok and tok == ("op", "-"):
            self.eat()
            return Node("neg", self.signed_power())
        return self.power()

    def atom(self) -> Node:
        tok = self.peek()
        if tok is None:
            raise ParseError(f"unexpected end of {self.text!r}")
        if tok[0] == "num":
            self.eat()
            return Node("num", tok[1])
        if tok[0] == "name":
            self.eat()
            nxt = self.peek()
            if nxt == ("op", "("):
                # a symbol that is itself a function name: f(x)
                args = self.call_args()
                return Node("apply", tok[1], *args)
            return Node("sym", tok[1])
        if tok[0] == "id":
            self.eat()
            nxt = self.peek()
            if nxt == ("op", "("):
                args = self.call_args()
                return Node("call", tok[1], *args)
            if tok[1] in CONSTS:
                return Node("const", tok[1])
            return Node("unknown", tok[1])
        if tok == ("op", "("):
            self.eat()
            e = self.relation()
            if self.peek() == ("op", ","):
                items = [e]
                while self.peek() == ("op", ","):
                    self.eat()
                    items.append(self.relation())
                self.eat(")")
                return Node("tuple", *items)
            self.eat(")")
            return e
        if tok == ("op", "["):
            self.eat()
            items = []
            if self.peek() != ("op", "]"):
                items.append(self.relation())
                while self.peek() == ("op", ","):
                    self.eat()
                    items.append(self.relation())
            self.eat("]")
            return Node("list", *items)
        raise ParseError(f"unexpected token {tok!r} in {self.text!r}")

    def call_args(self) -> list[Node]:
        self.eat("(")
        args = []
        if self.peek() != ("op", ")"):
            args.append(self.relation())
            while self.peek() == ("op", ","):
                self.eat()
                args.append(self.relation())
        self.eat(")")
        return args


def parse(text: str, names: list[str]) -> Node:
    return Parser(text, names).parse()


def evaluate(n: Node, env: dict[str, Any], apply_env: Optional[dict[str, Callable]] = None) -> Any:
    k = n.kind
    if k == "num":
        return mpmath.mpf(n.args[0])
    if k == "sym":
        if n.args[0] not in env:
            raise Opaque(f"symbol {n.args[0]} has no value")
        return env[n.args[0]]
    if k == "const":
        return CONSTS[n.args[0]]()
    if k == "unknown":
        raise Opaque(f"unknown identifier {n.args[0]}")
    if k in ("add", "sub", "mul", "div"):
        a, b = evaluate(n.args[0], env, apply_env), evaluate(n.args[1], env, apply_env)
        if k == "add":
            return a + b
        if k == "sub":
            return a - b
        if k == "mul":
            return a * b
        return a / b
    if k == "neg":
        return -evaluate(n.args[0], env, apply_env)
    if k == "pow":
        return mpmath.power(evaluate(n.args[0], env, apply_env), evaluate(n.args[1], env,
            apply_env))
    if k == "call":
        f = FUNCS.get(n.args[0])
        if f is None:
            raise Opaque(f"call of {n.args[0]}")
        return f(*[evaluate(a, env, apply_env) for a in n.args[1:]])
    if k == "apply":
        f2 = (apply_env or {}).get(n.args[0])
        if f2 is None:
            raise Opaque(f"applied symbol {n.args[0]}")
        return f2(*[evaluate(a, env, apply_env) for a in n.args[1:]])
    if k == "rel":
        raise Opaque("relation")
    raise Opaque(k)


def calls(n: Node) -> set[str]:
    out = set()
    if n.kind in ("call", "apply"):
        out.add(n.args[0])
    for a in n.args:
        if isinstance(a, Node):
            out |= calls(a)
    return out

"""Well-formedness automaton and reader for the LaTeX subset the formula printer emits (C18).

Reader: fractions, roots, powers, juxtaposition and \\cdot as product, signs, \\left( \\right),
\\left| \\right|, elementary functions with braced / delimited arguments, \\log_{b}, numbers,
\\pi, e, i.  Symbols are recognised from the printed forms of the expression's own atoms (longest
match first).  Where the notation admits two conventional readings (a function application followed
by a power) both are evaluated.
"""
from __future__ import annotations

import itertools
import re
from typing import Any, Callable, Optional

import mpmath


class Malformed(Exception):
    pass


class Unread(Exception):
    """outside the reader's grammar: undecided, never a violation"""


# ---- well-formedness ---------------------------------------------------------------------------------


def well_formed(tex: str) -> str:
    """'' if balanced; otherwise a description of the defect"""
    stack: list[str] = []
    i, n = 0, len(tex)
    while i < n:
        if tex.startswith("\\left", i) and not tex[i + 5:i + 6].isalpha():
            j = i + 5
            if j >= n:
                return "\\left without delimiter"
            stack.append("left")
            i = j + (2 if tex[j] == "\\" else 1)
            continue
        if tex.startswith("\\right", i) and not tex[i + 6:i + 7].isalpha():
            if not stack or stack[-1] != "left":
                return f"\\right without matching \\left at {i}"
            stack.pop()
            j = i + 6
            if j >= n:
                return "\\right without delimiter"
            i = j + (2 if tex[j] == "\\" else 1)
            continue
        if tex.startswith("\\begin{", i):
            m = re.match(r"\\begin\{([a-z*]+)\}", tex[i:])
            if not m:
                return "malformed \\begin"
            stack.append("env:" + m.group(1))
            i += m.end()
            continue
        if tex.startswith("\\end{", i):
            m = re.match(r"\\end\{([a-z*]+)\}", tex[i:])
            if not m or not stack or stack[-1] != "env:" + m.group(1):
                return f"\\end without matching \\begin at {i}"
            stack.pop()
            i += m.end()
            continue
        ch = tex[i]
        if ch == "\\":
            i += 2  # escaped character or start of a command name
            while i < n and tex[i - 1].isalpha() and tex[i].isalpha():
                i += 1
            continue
        if ch == "{":
            stack.append("{")
        elif ch == "}":
            if not stack or stack[-1] != "{":
                return f"unbalanced '}}' at {i}"
            stack.pop()
        elif ch in "^_":
            j = i + 1
            while j < n and tex[j] == " ":
                j += 1
            if j >= n or tex[j] in "}^_&":
                return f"'{ch}' without operand at {i}"
        i += 1
    if stack:
        return f"unclosed {stack[-1]}"
    if re.search(r"\\frac\{\s*\}|\\frac\{[^{}]*\}\{\s*\}", tex):
        return "empty \\frac argument"
    return ""


# ---- reader --------------------------------------------------------------------------------------------

FUNCS: dict[str, Callable[..., Any]] = {
    "sin": mpmath.sin, "cos": mpmath.cos, "tan": mpmath.tan, "cot": mpmath.cot, "sec": mpmath.sec,
    "csc": mpmath.csc, "sinh": mpmath.sinh, "cosh": mpmath.cosh, "tanh": mpmath.tanh,
    "coth": mpmath.coth, "exp": mpmath.exp, "log": mpmath.log, "ln": mpmath.log,
    "asin": mpmath.asin, "acos": mpmath.acos, "atan": mpmath.atan, "acot": mpmath.acot,
    "arcsin": mpmath.asin, "arccos": mpmath.acos, "arctan": mpmath.atan, "asinh": mpmath.asinh,
    "acosh": mpmath.acosh, "atanh": mpmath.atanh, "re": mpmath.re, "im": mpmath.im,
    "sign": mpmath.sign, "erf": mpmath.erf,
}


class Node:

    def __init__(self, kind: str, *args: Any):
        self.kind, self.args = kind, args

    def __repr__(self) -> str:
        return f"{self.kind}({', '.join(map(repr, self.args))})"


class Reader:

    def __init__(self, tex: str, symbols: list[str]):
        # TeX ignores blanks in math mode: two numerals separated only by a blank are typeset as
        # one numeral (this is what the printer's number separator exists to prevent)
        tex = re.sub(r"(?<=[0-9.]) +(?=[0-9])", "", tex)
        self.t = tex
        self.i = 0
        self.symbols = sorted(set(s for s in symbols if s), key=len, reverse=True)

    # -- low level ---------------------------------------------------------------------------------
    def ws(self) -> None:
        while self.i < len(self.t) and (self.t[self.i].isspace() or self.t.startswith("\\,", self.i)
                or self.t.startswith("\\;", self.i) or self.t.startswith("\\!", self.i)):
            self.i += 2 if self.t[self.i] == "\\" else 1

    def at(self, s: str) -> bool:
        self.ws()
        if not self.t.startswith(s, self.i):
            return False
        if s[0] == "\\" and s[-1].isalpha():
            j = self.i + len(s)
            return not (j < len(self.t) and self.t[j].isalpha())
        return True

    def eat(self, s: str) -> None:
        if not self.at(s):
            raise Unread(f"expected {s!r} at {self.i}: ...{self.t[self.i:self.i + 25]!r}")
        self.i += len(s)

    def done(self) -> bool:
        self.ws()
        return self.i >= len(self.t)

    # -- grammar ------------------------------------------------------------------------------------
    def parse(self) -> Node:
        e = self.relation()
        if not self.done():
            raise Unread(f"trailing input at {self.i}: {self.t[self.i:self.i + 30]!r}")
        return e

    def relation(self) -> Node:
        lhs = self.expr()
        for op in ("=", "\\approx", "\\leq", "\\geq", "\\neq", "<", ">", "\\propto"):
            if self.at(op):
                self.eat(op)
                return Node("rel", op, lhs, self.expr())
        return lhs

    TERMINATORS = ("+", "-", "=", "}", "\\right", "&", "\\\\", ",", "\\approx", "\\leq", "\\geq",
        "\\neq", "<", ">", "\\end", "]", "\\propto", "\\rangle")

    def expr(self) -> Node:
        self.ws()
        neg = False
        if self.at("-"):
            self.eat("-")
            neg = True
        elif self.at("+"):
            self.eat("+")
        n = self.term()
        if neg:
            n = Node("neg", n)
        while True:
            if self.at("+"):
                self.eat("+")
                n = Node("add", n, self.term())
            elif self.at("-"):
                self.eat("-")
                n = Node("sub", n, self.term())
            else:
                return n

    def term(self) -> Node:
        n = self.factor()
        while True:
            self.ws()
            if self.done() or any(self.at(x) for x in self.TERMINATORS):
                return n
            if self.at("\\cdot"):
                self.eat("\\cdot")
                n = Node("mul", n, self.factor())
                continue
            if self.at("\\times"):
                self.eat("\\times")
                n = Node("mul", n, self.factor())
                continue
            if self.at("/"):
                self.eat("/")
                n = Node("div", n, self.factor())
                continue
            n = Node("mul", n, self.factor())

    def group(self) -> Node:
        """{ expr } or a single token"""
        self.ws()
        if self.at("{"):
            self.eat("{")
            e = self.expr()
            self.eat("}")
            return e
        return self.base()

    def factor(self) -> Node:
        b = self.base()
        while self.at("^"):
            self.eat("^")
            ex = self.group()
            if b.kind == "func" and b.args[2] is None:
                # f(x)^n: conventionally (f(x))^n; the other reading f(x^n) is kept as alternative
                b = Node("funcpow_after", b, ex)
            else:
                b = Node("pow", b, ex)
        if self.at("!"):
            self.eat("!")
            b = Node("fact", b)
        return b

    def delimited(self) -> Optional[Node]:
        if self.at("\\left("):
            self.eat("\\left(")
            e = self.expr()
            self.eat("\\right)")
            return e
        if self.at("\\left["):
            self.eat("\\left[")
            e = self.expr()
            self.eat("\\right]")
            return e
        if self.at("("):
            self.eat("(")
            e = self.expr()
            self.eat(")")
            return e
        return None

    def base(self) -> Node:
        self.ws()
        if self.done():
            raise Unread("unexpected end")
        d = self.delimited()
        if d is not None:
            return Node("paren", d)
        if self.at("\\left|"):
            self.eat("\\left|")
            e = self.group() if self.at("{") else self.expr()
            self.eat("\\right|")
            return Node("abs", e)
        if self.at("{"):
            self.eat("{")
            e = self.expr()
            self.eat("}")
            return Node("paren", e)
        if self.at("\\frac"):
            self.eat("\\frac")
            self.eat("{")
            a = self.expr()
            self.eat("}")
            self.eat("{")
            b = self.expr()
            self.eat("}")
            return Node("div", a, b)
        if self.at("\\sqrt"):
            self.eat("\\sqrt")
            n: Any = Node("num", "2")
            if self.at("["):
                self.eat("[")
                n = self.expr()
                self.eat("]")
            self.eat("{")
            a = self.expr()
            self.eat("}")
            return Node("root", a, n)
        # symbols of the expression (longest match first)
        for s in self.symbols:
            if self.t.startswith(s, self.i):
                j = self.i + len(s)
                if s[-1].isalpha() and s.startswith("\\") and j < len(self.t) and self.t[j].isalpha():
                    continue
                self.i = j
                node = Node("sym", s)
                # applied undefined function: f{\left(x \right)}
                if self.t.startswith("{\\left(", self.i):
                    save = self.i
                    try:
                        self.eat("{")
                        self.eat("\\left(")
                        args = [self.expr()]
                        while self.at(","):
                            self.eat(",")
                            args.append(self.expr())
                        self.eat("\\right)")
                        self.eat("}")
                        return Node("apply", s, *args)
                    except Unread:
                        self.i = save
                return node
        m = re.match(r"\d+\.\d*|\d+|\.\d+", self.t[self.i:])
        if m:
            self.i += m.end()
            return Node("num", m.group())
        if self.at("\\pi"):
            self.eat("\\pi")
            return Node("const", "pi")
        if self.at("\\infty"):
            self.eat("\\infty")
            return Node("const", "oo")
        m = re.match(r"\\operatorname\{([A-Za-z]+)\}", self.t[self.i:])
        if m:
            self.i += m.end()
            return self.function(m.group(1))
        m = re.match(r"\\([A-Za-z]+)", self.t[self.i:])
        if m and m.group(1) in FUNCS:
            self.i += m.end()
            return self.function(m.group(1))
        if self.at("e"):
            self.eat("e")
            return Node("const", "E")
        if self.at("i"):
            self.eat("i")
            return Node("const", "I")
        raise Unread(f"cannot read at {self.i}: {self.t[self.i:self.i + 30]!r}")

    def function(self, name: str) -> Node:
        power = None
        basearg = None
        if name == "log" and self.at("_"):
            self.eat("_")
            basearg = self.group()
        if self.at("^"):
            self.eat("^")
            power = self.group()
        self.ws()
        if self.at("{"):
            self.eat("{")
            if self.at("\\left("):
                self.eat("\\left(")
                arg = self.expr()
                self.eat("\\right)")
            else:
                arg = self.expr()
            self.eat("}")
        else:
            d = self.delimited()
            if d is None:
                raise Unread(f"function {name} without bracketed argument")
            arg = d
        return Node("func", name, arg, power, basearg)


def read(tex: str, symbols: list[str]) -> Node:
    return Reader(tex, symbols).parse()


def evaluate_all(n: Node, env: dict[str, Any], apply_env: Optional[dict] = None) -> list[Any]:
    """values of all conventional readings"""
    k = n.kind

    def ev(x: Node) -> list[Any]:
        return evaluate_all(x, env, apply_env)

    def prod(*lists: list) -> Any:
        return itertools.product(*lists)

    if k == "num":
        return [mpmath.mpf(n.args[0])]
    if k == "sym":
        if n.args[0] not in env:
            raise Unread(f"symbol {n.args[0]} without value")
        return [env[n.args[0]]]
    if k == "const":
        return [{"pi": mpmath.pi, "E": mpmath.e, "I": mpmath.mpc(0, 1), "oo": mpmath.inf}[n.args[0]]]
    if k in ("paren", ):
        return ev(n.args[0])
    if k == "neg":
        return [-a for a in ev(n.args[0])]
    if k == "abs":
        return [abs(a) for a in ev(n.args[0])]
    if k == "fact":
        return [mpmath.factorial(a) for a in ev(n.args[0])]
    if k in ("add", "sub", "mul", "div", "pow"):
        out = []
        for a, b in prod(ev(n.args[0]), ev(n.args[1])):
            if k == "add":
                out.append(a + b)
            elif k == "sub":
                out.append(a - b)
            elif k == "mul":
                out.append(a * b)
            elif k == "div":
                out.append(a / b)
            else:
                out.append(mpmath.power(a, b))
        return out
    if k == "root":
        return [mpmath.power(a, 1 / b) for a, b in prod(ev(n.args[0]), ev(n.args[1]))]
    if k == "func":
        name, arg, power, basearg = n.args
        f = FUNCS.get(name)
        if f is None:
            raise Unread(f"function {name}")
        out = []
        for a in ev(arg):
            v = f(a)
            if basearg is not None:
                out += [v / mpmath.log(b) for b in ev(basearg)]
            else:
                out.append(v)
        if power is not None:
            out = [mpmath.power(v, p) for v, p in prod(out, ev(power))]
        return out
    if k == "funcpow_after":
        fn, ex = n.args
        name, arg, _, basearg = fn.args
        first = [mpmath.power(v, p) for v, p in prod(ev(fn), ev(ex))]
        second = evaluate_all(Node("func", name, Node("pow", arg, ex), None, basearg), env, apply_env)
        return first + second
    if k == "apply":
        f2 = (apply_env or {}).get(n.args[0])
        if f2 is None:
            raise Unread(f"applied symbol {n.args[0]}")
        return [f2(*c) for c in prod(*[ev(a) for a in n.args[1:]])]
    if k == "rel":
        raise Unread("relation")
    raise Unread(k)

"""Regenerates MANIFEST.json from the per-check metadata below: python -m vp.manifest"""
from __future__ import annotations

import json
import os

ROOT = os.path.dirname(os.path.dirname(os.path.abspath(__file__)))

# property -> (category, technique, level text, level note, design ref)
CHECKS: dict[str, tuple[str, str, str, str, str]] = {}
NOT_APPLICABLE: dict[str, str] = {}


def reg(pid: str, category: str, technique: str, text: str, note: str, ref: str) -> None:
    CHECKS[pid] = (category, technique, text, note, ref)


reg("C20", "exploration",
    "exhaustive enumeration of the finite constants table against a hand-typed CODATA/IAU reference",
    "Every module-level constant x {dimension, SI value}, every __all__ entry and every listed "
    "identity is compared with an independent reference table; the space is finite and fully "
    "enumerated, which is the right level for a configuration table. The table is re-read after "
    "every public operation (with and without optional arguments) on every constant and after long "
    "creation histories crossing the digit-count / power-of-two boundaries of the name counter.",
    "Trusts data/constants_ref.json (CODATA 2018 / IAU 2015) and float arithmetic; tolerance per "
    "constant is the precision the library's literal claims.", "DESIGN.md 3/C20")

reg("C05", "exploration",
    "bounded-exhaustive enumeration of expression trees (<=2 / <=3 internal nodes) against a "
    "reference evaluator",
    "Every tree with at most n internal nodes over a 29-leaf / 10-operator alphabet is built with "
    "the ordinary sympy constructors and handed to Quantity(); verdict (accept/refuse), SI value "
    "and dimension are compared with an independent reference walker over the tree as received. "
    "The collector is a structural recursion, so small trees reach every branch pair.",
    "Reference unit table vp/values.py and exponent-vector calculus vp/dims.py; small-scope "
    "hypothesis beyond the bound; cases the property leaves open (complex infinity, non-real "
    "powers of dimensional bases) only checked for absence of unexpected exception types.",
    "DESIGN.md 3/C05")

reg("C06", "exploration",
    "bounded-exhaustive enumeration of symbolic expression trees against a reference dimension "
    "calculus plus commuting-diagram replay through Quantity()",
    "Every tree with at most n internal nodes over dimensioned symbols, applied functions, "
    "derivatives, quantities and numbers is given to collect_expression_and_dimension; the "
    "error verdict, the inferred dimension, value equality of the returned expression, the "
    "diagram with Quantity() and the four Symbolic wrappers are checked on each.",
    "vp/dims.py calculus; operands that contain a zero/infinite leaf inside a compound term, and "
    "sums over dimensions with symbolic exponents, are left open by the property and only checked "
    "for absence of unexpected exception types; value equality at one generic rational assignment.",
    "DESIGN.md 3/C06")

reg("C01", "exploration",
    "exhaustive walk of every node of every published equation of the catalogue under an "
    "independent exponent-vector dimension calculus",
    "The space is finite (every public relational attribute of all 766 catalogue modules and "
    "packages) and is enumerated completely; every node of every equation tree gets a dimension "
    "from the declared dimensions of its leaves and the property's rules are checked at each "
    "sum, relation, min/max, piecewise, exponent, exp/trig/hyperbolic argument, integral limit.",
    "Judged against declared dimensions; plain sympy symbols are wildcards; rules for matrix "
    "products, Laplacian and bare CoordSys3D coordinates as documented in vp/eqdims.py.",
    "DESIGN.md 3/C01")

reg("C04", "exploration",
    "exhaustive enumeration of a box of (declared, actual) dimension pairs with one-deviation "
    "sweeps, and of every guard of every decorated catalogue function",
    "All exponent-vector pairs of the box go through the real validate_input / validate_output / "
    "validate_output_same decorators; magnitude, zero/inf/nan, prefix, keyword passing, kind of "
    "declaration, direction and container are swept one deviation at a time and compared with a "
    "three-valued reference verdict; the catalogue part drives every guarded parameter of every "
    "decorated function with 7 wrong dimensions and a bare number.",
    "Exponents outside the box are not explored; reference verdict from vp/dims.py.",
    "DESIGN.md 3/C04")

reg("C02", "exploration",
    "deviation-bounded exhaustive enumeration of argument tuples per calculation function, judged "
    "by the residual of the module's own law, unit metamorphism and inverse pairs",
    "For each of the ~640 drivable calculation functions the default tuple and every tuple within "
    "k deviations (k=1 quick, k=2 thorough; magnitude x1e3 / x1e-3 / sign, unit spelling kilo / "
    "milli / cm-g-min) is executed on the real function; SI values of arguments and result are "
    "substituted into the module's published equation (30-digit arithmetic), respelled tuples must "
    "give equal results, documented magnitude / ceiling functions are checked against the root, "
    "and vector-law forms are composed on generic symbolic vectors of length 1..3. Vector wrappers "
    "are compared with their law function over all products of 7 direction patterns x optional-"
    "argument menus; the 8 field-law modules are driven over all fields with <= 2 polynomial terms "
    "against the law in the module header.",
    "Magnitudes outside the menu are not explored; laws with derivatives / integrals / sums / "
    "applied functions get the metamorphic oracle only; negative-argument tuples are judged only "
    "when the law is satisfiable for them; allow-list data/c02_magnitude_or_ceil.json.",
    "DESIGN.md 3/C02")

reg("C03", "model_checking",
    "explicit-state exploration of import / object-creation histories on the real interpreter "
    "state (fork server), value fingerprints compared with the default history",
    "State = (module, history). A fork server advances the per-prefix id counters to exact "
    "levels through the public constructors and forks one child per (module, history); the child "
    "imports the module (its in-module derivation asserts run) and reports 20-digit values of "
    "every public equation at a fixed environment keyed by stable names plus calculate_* results. "
    "Histories: digit-boundary and name-order-class offsets, whole-catalogue alphabetical and "
    "reverse imports in one process, hash seeds; thorough adds per-module break-point offsets "
    "computed from the names the module actually uses, single-prefix bumps and dependency-first "
    "imports. Every explored trace is an implementation trace.",
    "Abstraction: a history matters only through string order of generated names, hash seed and "
    "earlier dependency imports; offsets <= 1e5; QTY/SYS/vector counters advanced with next_id.",
    "DESIGN.md 3/C03")

reg("C07", "exploration",
    "exhaustive enumeration of ordered unit pairs / triples and a temperature grid against an own "
    "SI-factor table",
    "All ordered pairs of a ~130-spelling unit table (base, derived, prefixed, composite) x 5 "
    "magnitudes are converted (or must be refused), every unit is converted to its SI unit, "
    "round trips and all ordered triples inside each dimension class are composed, "
    "evaluate_expression is run over expression shapes x quantity pairs, and the Celsius/kelvin "
    "helpers over a temperature grid including absolute zero. Conversion is a ratio of two table "
    "entries after a dimension check, so pairs and triples exhaust its behaviour on the table.",
    "SI factors in vp/values.py typed from the SI brochure; sympy's own unit data errors "
    "(nautical mile, astronomical unit) are out of scope.", "DESIGN.md 3/C07")

reg("C08", "exploration",
    "exhaustive grid straddling the tolerance boundary, judged by an interval reference "
    "(must-pass / must-fail / don't-care)",
    "The full product of values, tolerance modes, offset/tolerance ratios (0, 0.5, 1-1e-6, 1+1e-6, "
    "2, 10), real/imaginary part, operand order, unit spelling and entry point (approx_equal_numbers, "
    "approx_equal_quantities, assert_equal, assert_equal_vectors) is run; plus equivalent and "
    "inequivalent dimension pairs, bare numbers with and without dimension, vectors with one "
    "deviating component and unequal lengths.",
    "Reference bands as worded in the property; the band between rel*min and rel*max is left open.",
    "DESIGN.md 3/C08")

reg("C09", "model_checking",
    "breadth-first search over all multisets of creation / clone events up to a depth bound on "
    "the real API, invariants evaluated in every state",
    "States are canonical multisets of object descriptors (creations commute, nothing is "
    "destroyed); each of them is re-created on the live process, whose counters only grow, so the "
    "search also crosses the digit boundaries of every name counter. In every state: pairwise "
    "inequality / distinct hashes / distinct internal names, isolation of subs / diff / solve on a "
    "linear combination with prime coefficients, the clone contract (dimension, display names, "
    "subscript on code and LaTeX names, assumptions) and the three printers.",
    "Depth 3 (quick) / 4 (thorough); quantities are constants and are compared at value level "
    "(sympy may express one quantity through another of the same dimension).", "DESIGN.md 3/C09")

reg("C10", "exploration",
    "exhaustive enumeration of operand length combinations and coordinate-system combinations "
    "with generic symbolic components, exact polynomial comparison with a tuple reference",
    "All 16 / 64 / 256 length combinations (0..3) of 2 / 3 / 4 operands are run through the real "
    "functions; every result is compared with the tuple reference and every identity named in the "
    "property is decided by exact normal form, which settles it for all component values; the "
    "refusal matrix covers 7 binary functions x 36 ordered pairs of system instances.",
    "Identities are polynomial (rational for projection / unit vectors); sympy expand / together "
    "are trusted.", "DESIGN.md 3/C10")

reg("C11", "exploration",
    "enumeration of lattice points x component patterns x both directions of both system pairs, "
    "compared with an own Cartesian embedding at 40 digits",
    "Vectors are re-expressed in both directions and round-tripped; dot product, magnitude and "
    "scaling in the curvilinear system are compared with the Cartesian values of the re-expressed "
    "operands; 11 scalar fields are re-expressed both ways and evaluated at corresponding points; "
    "direct cylindrical-spherical conversion and wrong point kinds must be refused. The same between "
    "Cartesian frames rotated about each axis (and curvilinear systems derived from them) and the "
    "parent's systems; points given with fewer coordinates.",
    "Finite lattice away from singularities plus one generic-symbol round trip per pair; the "
    "transformation entries are elementary functions, each exercised by several lattice points.",
    "DESIGN.md 3/C11")

reg("C12", "exploration",
    "exhaustive enumeration of system x operator x component count x slot x field basis, compared "
    "with operators derived independently by the chain rule",
    "Gradient, divergence and curl are first-order linear differential operators, determined by "
    "their action on {1, q1, q2, q3} in each component slot; the check runs the real operators on "
    "that basis (plus products, a trigonometric field and generic undefined functions that guard "
    "the premise) for every component count 0..3 and compares with the Cartesian operators pulled "
    "back through the coordinate map and projected on the local frame; curl grad = 0 and div curl "
    "= 0 are evaluated on generic functions.",
    "Comparison at 2-3 lattice points per system with derivative atoms treated as independent "
    "numbers; spherical polar angle in (0, pi).", "DESIGN.md 3/C12")

reg("C13", "exploration",
    "exhaustive enumeration of a monomial field basis x region alphabet x reparametrisation x "
    "orientation; the library's two ways of computing each integral compared with each other and "
    "with own closed forms",
    "The five functionals are linear in the field, so the monomial basis per component slot "
    "decides all polynomial fields of the bounded degree (2 quick, 3 thorough); regions: circle "
    "(two speeds, both orientations), ellipse, rectangle as four segments, paraboloid cap, box "
    "with six faces; results must be free of coordinate variables and parameters.",
    "sympy.integrate / simplify trusted for the closed forms; trigonometric fields only on "
    "rectangle and box where the integrals are elementary.", "DESIGN.md 3/C13")

reg("C14", "exploration",
    "bounded-exhaustive enumeration of vector-expression trees x all role assignments of the "
    "created symbols (owns the id() order) x construction modes, judged by component expansion",
    "All product-structure shapes with at most 3 product nodes (dot, cross, mixed, norm, scalar "
    "times vector) over role leaves in every role pattern, plus every single (thorough: also "
    "double) decoration of a leaf by sign / number / scalar multiple / sum / zero; every tree is "
    "built with each of the k! assignments of the created VectorSymbols to its roles, auto-evaluated "
    "and via evaluate=False + doit(); the result is interpreted in R^3 and compared with the "
    "component expansion of the tree description by exact polynomial normal form. 40 derivative "
    "cases over vector functions of t (first and second order) must terminate and equal the "
    "component-wise derivative.",
    "Trees beyond 3 product nodes rely on the small-scope hypothesis (rewrite rules fire on "
    "operand shape); expressions with norms compared numerically at 40 digits.", "DESIGN.md 3/C14")

reg("C15", "exploration",
    "exhaustive enumeration of ordered pairs and triples of systems x lattice points, judged "
    "against an own Cartesian position map and local frames",
    "For all 6 ordered pairs (plus same-type pairs) and 6 ordered triples of the Cartesian, "
    "cylindrical and spherical systems and every lattice point of each domain: scalar round "
    "trips, scalars against the geometry, orthonormality / determinant +1 / inverse / agreement "
    "with the geometric rotation of the base-vector maps, direct conversion against the one via "
    "the third system, convert_point and convert_vector (4 vectors per point), Lame coefficients "
    "and Jacobian against the position derivatives; systems built with the optional constructor "
    "arguments; conversion histories of one point object over several instances.",
    "Finite lattice inside each domain; 40-digit comparison; every table entry is exercised by "
    "several lattice points in all four quadrants.", "DESIGN.md 3/C15")

reg("C16", "exploration",
    "exhaustive enumeration of linear combinations x unknown x flag x input form, equivalence "
    "decided by component expansion",
    "All linear combinations of 1..2 terms over 8 coefficients x 7 vector terms and 3 terms over a "
    "reduced alphabet are rearranged for each of a, b, c and the absent d, with and without factor "
    "reduction, as expression and as equation; the difference of the returned sides must equal "
    "the original expression divided by the coefficient of a term in the unknown (or +-the "
    "expression), the right-hand side must solve the equation when the unknown occurs once, absent "
    "unknowns / non-vectors / vectors occurring only inside products must be refused.",
    "R^3 component expansion with exact normal form; admissible divisors include the coefficients "
    "of the terms after expansion, since the solver splits (k+1)*b into k*b and b.",
    "DESIGN.md 3/C16")

reg("C17", "exploration",
    "bounded-exhaustive enumeration of canonical expression trees plus all documented catalogue "
    "equations in source form, judged by an own precedence parser and value comparison",
    "Every auto-evaluated tree with at most n internal nodes over the printer-relevant alphabet, "
    "and each of the ~620 documented equations obtained exactly as the documentation obtains them "
    "(patch + exec with evaluation disabled), is rendered by code_str; the text is parsed under "
    "ordinary precedence with ^ for powers and function-call syntax and evaluated at lattice points "
    "(40 digits, complex) against the original. Plus pairs of sibling applications of one function, "
    "dense matrices of every shape up to 3 x 3, and display-name collisions inside one equation.",
    "Trees beyond the bound by the small-scope hypothesis (bracketing decisions depend on the "
    "parent/child node types only); catalogue equations with derivatives / integrals / sums / "
    "matrices are structure-checked only.", "DESIGN.md 3/C17")

reg("C18", "exploration",
    "same enumeration as C17, judged by a brace/delimiter automaton and an own LaTeX reader that "
    "evaluates all conventional readings",
    "Every rendering by latex_str must pass the well-formedness automaton (braces, \\left/\\right, "
    "begin/end, empty \\frac, dangling ^ _); renderings within the reader's grammar (fractions, "
    "roots, powers, juxtaposition, signs, delimiters, elementary functions, \\log_b) are evaluated "
    "and compared by value with the original; a violation is reported only if no conventional "
    "reading has the original's value.",
    "Unreadable renderings are undecided and listed; catalogue equations with derivatives, "
    "integrals, sums, matrices, wrappers are well-formedness-checked only.", "DESIGN.md 3/C18")

reg("C19", "model_checking",
    "explicit-state exploration of the AST patcher over all small module bodies, plus stepwise "
    "monitoring of whole-package generation in several orders, processes and hash seeds",
    "(a) every module body of at most n statements (n=4 quick, 5 thorough) over 11 statement "
    "kinds is patched by the real patch_sympy_evaluate, compiled and executed with the real "
    "disable/reset functions; probes record sympy's global evaluation flag at every statement and "
    "the flag / exposure / order invariants are checked in every state. (b) generate_laws_docs is "
    "run on the real package with the flag and canary computations checked after each of the "
    "~735 pages, repeated in the same process, with reversed directory order and in fresh "
    "processes under other hash seeds (byte-identical output); pages are checked against the "
    "modules: one page per titled source, no placeholder left, every formula and symbol table equal "
    "to the module's own rendering, every symbol / constant role resolves to an existing attribute.",
    "Shapes the catalogue never has (statements between a member and its directive docstring, "
    "documented defs designated by a directive) are left open; Sphinx HTML is out of scope.",
    "DESIGN.md 3/C19")


def build() -> dict:
    props = [json.loads(l)["id"] for l in open(os.path.join(ROOT, "properties.jsonl"))]
    checks = []
    for pid in props:
        if pid not in CHECKS:
            continue
        cat, tech, text, note, ref = CHECKS[pid]
        checks.append({
            "property_id": pid,
            "quick_cmd": f"./check {pid} quick",
            "thorough_cmd": f"./check {pid} thorough",
            "evidence_file": f"/verif/evidence/{pid}.json",
            "replay_cmd_template": f"./check {pid} --replay {{path}}",
            "engine": "vp-explorer",
            "level_claimed": {"category": cat, "text": text, "design_ref": ref},
            "level_note": note,
            "technique": tech,
        })
    na = [{"property_id": p, "reason": NOT_APPLICABLE.get(p, "check not built yet (work in progress); "
        "see DESIGN.md section 7 build order")} for p in props if p not in CHECKS]
    return {
        "version": 1,
        "setup_cmd": "cd /verif && /venv/bin/python -m vp.selftest",
        "hooks": {
            "guard": "SYMPLYPHYSICS_VERIF",
            "enable": "no source hooks: checks drive the public API of /repo's working tree "
            "(editable install in /venv); the guard variable is reserved and set by ./check",
            "baseline_off_cmd": "cd /repo && /venv/bin/python -m pytest -ra -q -p no:cacheprovider "
            "--timeout=900 --continue-on-collection-errors",
            "source_commits": [],
            "add_only": True,
        },
        "engines": [{
            "name": "vp-explorer",
            "path": "/verif/vp",
            "serves_properties": [c["property_id"] for c in checks],
            "kind_free_text": "hand-written bounded-exhaustive explorers in Python (tree / tuple / "
            "history enumeration with canonical de-duplication) driving the real library, judged by "
            "independent reference models (vp/dims.py, vp/values.py, vp/vecref.py, parsers)",
        }],
        "checks": checks,
        "not_applicable": na,
        "notes": "All checks run /repo's current working tree through /venv/bin/python. "
        "known_findings.json lists genuine defects of the pinned tree (see DESIGN.md section 5).",
    }


if __name__ == "__main__":
    m = build()
    with open(os.path.join(ROOT, "MANIFEST.json"), "w") as f:
        json.dump(m, f, indent=1)
    print(f"MANIFEST.json: {len(m['checks'])} checks, {len(m['not_applicable'])} not applicable")

"""Reference homogeneity calculus for published equations (C01): assigns an exponent vector to
every node of an expression tree from the *declared* dimensions of its leaves and raises
``Inhomogeneous`` where the property's rules are broken.  Independent of
``collect_expression_and_dimension``."""
from __future__ import annotations

from typing import Any, Union

import sympy as sp
from sympy.core.relational import Relational
from sympy.functions.elementary.miscellaneous import MinMaxBase
from sympy.functions.elementary.trigonometric import TrigonometricFunction
from sympy.functions.elementary.hyperbolic import HyperbolicFunction
from sympy.logic.boolalg import BooleanFunction
from sympy.physics.units import Quantity as SymQuantity

from . import dims
from .dims import ANY, ONE, AnyDim, DimVec
from .values import is_absorbing

D = Union[DimVec, AnyDim]


class Inhomogeneous(Exception):
    pass


class Undecided(Exception):
    pass


class Walker:

    def __init__(self) -> None:
        self.nodes = 0
        self.edges = 0

    # -- helpers ---------------------------------------------------------------------------------
    def same(self, what: str, parts: list[tuple[Any, D]]) -> D:
        common: D = ANY
        first = None
        for e, d in parts:
            if isinstance(d, AnyDim):
                continue
            if isinstance(common, AnyDim):
                common, first = d, e
            elif common != d:
                raise Inhomogeneous(f"{what}: '{_s(first)}' has dimension {common} but '{_s(e)}' has {d}")
        return common

    def dimensionless(self, what: str, e: Any, d: D) -> None:
        if isinstance(d, AnyDim) or d.dimensionless:
            return
        raise Inhomogeneous(f"{what} '{_s(e)}' has dimension {d}, must be dimensionless")

    # -- the walk --------------------------------------------------------------------------------
    def equation(self, eq: Any) -> None:
        self.nodes += 1
        if isinstance(eq, Relational):
            self.edges += 2
            if self.is_matrix(eq.lhs) or self.is_matrix(eq.rhs):
                a, b = self.mdim(eq.lhs), self.mdim(eq.rhs)
                if a is None or b is None:
                    return
                if (len(a), len(a[0])) != (len(b), len(b[0])):
                    raise Inhomogeneous(f"matrix shapes differ: {len(a)}x{len(a[0])} vs "
                        f"{len(b)}x{len(b[0])}")
                for i, (ra, rb) in enumerate(zip(a, b)):
                    for j, (x, y) in enumerate(zip(ra, rb)):
                        self.same(f"matrix entry ({i},{j}) of the two sides", [(eq.lhs, x),
                            (eq.rhs, y)])
                return
            self.same(f"sides of {type(eq).__name__}", [(eq.lhs, self.dim(eq.lhs)), (eq.rhs,
                self.dim(eq.rhs))])
            return
        if isinstance(eq, BooleanFunction):
            for a in eq.args:
                self.edges += 1
                self.equation(a)
            return
        if eq in (sp.true, sp.false):
            return
        raise Undecided(f"equation node {type(eq).__name__}")

    def dim(self, e: Any) -> D:
        self.nodes += 1
        self.edges += len(getattr(e, "args", ()))
        # leaves
        if isinstance(e, SymQuantity):
            if is_absorbing(e.scale_factor):
                return ANY
            return dims.of_dimension(e.dimension)
        if e.is_Number or e.is_NumberSymbol or e is sp.I:
            return ANY if is_absorbing(e) else ONE
        if hasattr(e, "factor") and hasattr(e, "wrap_code"):
            # Symbolic wrapper (average, finite difference, differential): it carries a declared
            # dimension, which must be the one of its operand
            inner = self.dim(e.factor)
            declared = dims.of_dimension(e.dimension)
            if not dims.same(inner, declared):
                raise Inhomogeneous(f"wrapper '{_s(e)}' declares dimension {declared} but its operand "
                    f"has {inner}")
            return declared if isinstance(inner, AnyDim) else inner
        if isinstance(e, sp.Indexed):
            for i in e.indices:
                self.dim(i)
            return self.leaf_dim(e.base)
        if isinstance(e, (sp.Symbol, sp.IndexedBase, sp.Idx)):
            return self.leaf_dim(e)
        if isinstance(e, sp.MatrixSymbol):
            return ANY
        if isinstance(e, sp.Mul):
            r: D = ONE
            for a in e.args:
                d = self.dim(a)
                r = ANY if isinstance(r, AnyDim) or isinstance(d, AnyDim) else r * d
            return r
        if isinstance(e, sp.Add):
            return self.same("terms of a sum", [(a, self.dim(a)) for a in e.args])
        if isinstance(e, sp.Pow):
            bd, ed = self.dim(e.base), self.dim(e.exp)
            self.dimensionless("exponent", e.exp, ed)
            if isinstance(bd, AnyDim):
                return ANY
            if bd.dimensionless:
                return ONE
            return bd**_plain(e.exp)
        if isinstance(e, MinMaxBase):
            return self.same(f"arguments of {type(e).__name__}", [(a, self.dim(a)) for a in e.args])
        if isinstance(e, sp.Piecewise):
            parts = []
            for val, cond in e.args:
                parts.append((val, self.dim(val)))
                if cond not in (sp.true, sp.false) and not isinstance(cond, sp.Symbol):
                    self.equation(cond)
            return self.same("branches of Piecewise", parts)
        if isinstance(e, sp.Derivative):
            d = self.dim(e.expr)
            for v, n in e.variable_count:
                vd = self.dim(v)
                if isinstance(d, AnyDim) or isinstance(vd, AnyDim):
                    d = ANY
                else:
                    d = d / vd**n
            return d
        if isinstance(e, sp.Integral):
            d = self.dim(e.function)
            for lim in e.limits:
                v = lim[0]
                vd = self.dim(v)
                if isinstance(vd, AnyDim) and len(lim) > 1:
                    # a dummy variable takes the dimension of its limits
                    vd = self.same("integration limits", [(b, self.dim(b)) for b in lim[1:]])
                else:
                    self.same("integration variable and limits", [(v, vd)] + [(b, self.dim(b))
                        for b in lim[1:]])
                d = ANY if isinstance(d, AnyDim) or isinstance(vd, AnyDim) else d * vd
            return d
        if isinstance(e, (sp.Sum, )) or type(e).__name__ == "IndexedSum":
            body = e.args[0]
            for lim in e.args[1:]:
                for b in (lim[1:] if isinstance(lim, (tuple, sp.Tuple)) else ()):
                    self.dimensionless("summation bound", b, self.dim(b))
            return self.dim(body)
        if isinstance(e, sp.Product) or type(e).__name__ == "IndexedProduct":
            d = self.dim(e.args[0])
            if isinstance(d, AnyDim) or d.dimensionless:
                return d
            return ANY  # number of factors unknown
        if isinstance(e, sp.Abs) or isinstance(e, (sp.re, sp.im, sp.conjugate)):
            return self.dim(e.args[0])
        if isinstance(e, (sp.exp, TrigonometricFunction, HyperbolicFunction)):
            for a in e.args:
                self.dimensionless(f"argument of {type(e).__name__}", a, self.dim(a))
            return ONE
        if isinstance(e, sp.core.function.AppliedUndef):
            for a in e.args:
                self.dim(a)  # arguments are themselves checked, not constrained
            f = e.func
            if hasattr(f, "dimension"):
                return dims.of_dimension(f.dimension)
            return ANY
        if isinstance(e, sp.Subs):
            d = self.dim(e.expr)
            for v, p in zip(e.variables, e.point):
                self.same("substitution point", [(v, self.dim(v)), (p, self.dim(p))])
            return d
        if isinstance(e, sp.Function):  # log, atan, sign, besselj, factorial ...: unconstrained
            for a in e.args:
                self.dim(a)
            return ONE
        if self.is_matrix(e):
            m = self.mdim(e)
            if m is None:
                return ANY
            if len(m) == 1 and len(m[0]) == 1:
                return m[0][0]
            raise Undecided("matrix-valued operand in a scalar position")
        if type(e).__name__ in ("Laplacian", "Gradient", "Divergence", "Curl") and \
                type(e).__module__.startswith("sympy.vector"):
            d = self.dim(e.args[0])
            if isinstance(d, AnyDim):
                return ANY
            return d / dims.L**(2 if type(e).__name__ == "Laplacian" else 1)
        if type(e).__name__ == "BaseScalar":
            return ONE  # coordinates of a bare CoordSys3D carry no unit
        if isinstance(e, sp.Order):
            return ANY
        if isinstance(e, sp.Tuple):
            return self.same("tuple entries", [(x, self.dim(x)) for x in e])
        raise Undecided(f"node type {type(e).__name__}")

    @staticmethod
    def is_matrix(e: Any) -> bool:
        return isinstance(e, (sp.MatrixBase, sp.MatrixExpr)) or getattr(e, "is_Matrix", False)

    def mdim(self, e: Any) -> Any:
        """matrix of dimensions (list of rows), or None for a matrix of unknown content"""
        self.nodes += 1
        if isinstance(e, sp.MatrixBase):
            return [[self.dim(e[i, j]) for j in range(e.cols)] for i in range(e.rows)]
        if isinstance(e, sp.MatrixSymbol):
            return None
        if isinstance(e, sp.MatAdd):
            ms = [self.mdim(a) for a in e.args]
            if any(m is None for m in ms):
                return None
            out = ms[0]
            for m in ms[1:]:
                if (len(m), len(m[0])) != (len(out), len(out[0])):
                    raise Inhomogeneous("matrix sum of different shapes")
                out = [[self.same("entries of a matrix sum", [(e, x), (e, y)]) for x, y in
                    zip(ra, rb)] for ra, rb in zip(out, m)]
            return out
        if isinstance(e, (sp.MatMul, sp.Mul)):
            scal: D = ONE
            mats = []
            for a in e.args:
                if self.is_matrix(a):
                    mats.append(self.mdim(a))
                else:
                    d = self.dim(a)
                    scal = ANY if isinstance(scal, AnyDim) or isinstance(d, AnyDim) else scal * d
            if any(m is None for m in mats):
                return None
            out = mats[0]
            for m in mats[1:]:
                if len(out[0]) != len(m):
                    raise Inhomogeneous("matrix product of incompatible shapes")
                new = []
                for i in range(len(out)):
                    row = []
                    for j in range(len(m[0])):
                        terms = []
                        for k in range(len(m)):
                            x, y = out[i][k], m[k][j]
                            terms.append((e, ANY if isinstance(x, AnyDim) or isinstance(y, AnyDim)
                                else x * y))
                        row.append(self.same(f"terms of matrix product entry ({i},{j})", terms))
                    new.append(row)
                out = new
            return [[(ANY if isinstance(x, AnyDim) or isinstance(scal, AnyDim) else x * scal)
                for x in r] for r in out]
        if isinstance(e, sp.Transpose):
            m = self.mdim(e.arg)
            return None if m is None else [list(r) for r in zip(*m)]
        raise Undecided(f"matrix node {type(e).__name__}")

    def leaf_dim(self, s: Any) -> D:
        d = getattr(s, "dimension", None)
        if d is None:
            return ANY  # plain sympy symbol / index / dummy: wildcard
        return dims.of_dimension(d)


def _plain(x: Any) -> Any:
    """exponent as number or symbolic expression (quantities by value)"""
    if x.atoms(SymQuantity):
        x = x.xreplace({q: q.scale_factor for q in x.atoms(SymQuantity)})
    return x


def _s(e: Any) -> str:
    try:
        from symplyphysics.docs.printer_code import code_str
        s = code_str(e)
    except Exception:
        s = str(e)
    return s if len(s) < 80 else s[:77] + "..."


def check_equation(eq: Any) -> tuple[str, str, int, int]:
    """returns (verdict, message, nodes, edges); verdict in ok / inhomogeneous / undecided"""
    w = Walker()
    try:
        w.equation(eq)
        return "ok", "", w.nodes, w.edges
    except Inhomogeneous as ex:
        return "inhomogeneous", str(ex), w.nodes, w.edges
    except Undecided as ex:
        return "undecided", str(ex), w.nodes, w.edges

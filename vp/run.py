"""Dispatcher: python -m vp.run <Cxx> [quick|thorough] | <Cxx> --replay <file>"""
from __future__ import annotations

import importlib
import json
import os
import sys

from .harness import Run


def main(argv: list[str]) -> int:
    if not argv:
        print(__doc__)
        return 2
    prop = argv[0].upper()
    mod = importlib.import_module(f"vp.checks.{prop.lower()}")
    if len(argv) >= 3 and argv[1] == "--replay":
        with open(argv[2]) as f:
            rec = json.load(f)
        msgs = mod.replay(rec["case"])
        for m in msgs:
            print(f"VIOLATION property={prop} replay={argv[2]}")
            print("  " + m[:600])
        if not msgs:
            print(f"[{prop}] replay {argv[2]}: case passes")
        return 1 if msgs else 0
    tier = argv[1] if len(argv) > 1 else os.environ.get("VERIF_TIER", "quick")
    if tier not in ("quick", "thorough"):
        print(f"unknown tier {tier}")
        return 2
    seed = int(os.environ.get("VERIF_SEED", "0") or 0)
    run = Run(prop, mod.LEVEL, tier, seed)
    rc = mod.main(run)
    return int(rc or 0)


if __name__ == "__main__":
    sys.exit(main(sys.argv[1:]))

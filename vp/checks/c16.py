"""C16 - vector-equation rearrangement is equivalence-preserving.

All linear combinations of <= 3 terms over a coefficient x vector-term alphabet, every choice of
unknown (each atomic vector present, one absent), both settings of factor reduction, input given as
expression or as an equation with the terms split over both sides; equivalence decided by component
expansion in R^3.  solve_for_scalar and apply on an alphabet of scalar equations.
"""
from __future__ import annotations

import itertools
from typing import Any

import sympy as sp

from .. import vecref as R
from ..harness import Run, pmap, rotate, short, time_limit, CaseTimeout
from . import c14

PROPERTY = "C16"
LEVEL = "exploration"

k, m = sp.symbols("k m", positive=True)
xr, yr = sp.symbols("x y", real=True)  # no sign known: sqrt(x*y) is not sqrt(x)*sqrt(y)
COEFFS = {"1": sp.S.One, "-1": -sp.S.One, "2": sp.Integer(2), "k": k, "-k": -k, "k+1": k + 1,
    "1/k": 1 / k, "k*m": k * m, "sqrt(x*y)": sp.sqrt(xr * yr), "log(x*y)": sp.log(xr * yr),
    "(x*y)**(1/3)": (xr * yr)**sp.Rational(1, 3),
    # complex coefficients of modulus one: their reciprocal is the conjugate, not the number itself
    "I": sp.I, "-I": -sp.I, "exp(I*p)": sp.exp(sp.I * sp.Symbol("p", real=True)),
    "(1+I)/sqrt(2)": (1 + sp.I) / sp.sqrt(2)}
UNIT_COMPLEX = ("I", "-I", "exp(I*p)", "(1+I)/sqrt(2)")
VECS = ["a", "b", "c", "cross(a,b)", "ucross(a,b)", "2a", "cross(a,c)"]


def vec_term(name: str) -> tuple[Any, tuple, dict]:
    """(library vector, reference components, {atomic name: multiplier} if the term is atomic)"""
    from symplyphysics.core.experimental.vectors import VectorCross
    c14._setup()
    S = dict(zip("abcd", c14._SYMS))
    C = {n: c14._COMP[S[n]] for n in "abcd"}
    if name in "abc":
        return S[name], C[name], {name: 1}
    if name == "2a":
        return 2 * S["a"], R.scale(2, C["a"]), {"a": 2}
    if name == "cross(a,b)":
        return VectorCross(S["a"], S["b"]), R.cross(C["a"], C["b"]), {}
    if name == "ucross(a,b)":
        return VectorCross(S["a"], S["b"], evaluate=False), R.cross(C["a"], C["b"]), {}
    if name == "cross(a,c)":
        return VectorCross(S["a"], S["c"]), R.cross(C["a"], C["c"]), {}
    raise ValueError(name)


def combos(thorough: bool) -> list[tuple]:
    if thorough:
        terms = [(c, v) for c in COEFFS for v in VECS]
        small = [(c, v) for c in ("1", "-1", "-k", "k+1", "1/k") for v in ("a", "b", "c",
            "cross(a,b)", "2a")]
    else:
        terms = [(c, v) for c in ("1", "-1", "k", "k+1", "1/k", "k*m", "sqrt(x*y)") for v in VECS[:6]]
        small = [(c, v) for c in ("1", "-k", "k+1") for v in ("a", "b", "cross(a,b)")]
    out: list[tuple] = [(t, ) for t in [(c, v) for c in COEFFS for v in VECS]]
    out += list(itertools.product(terms, repeat=2))
    out += list(itertools.product(small, repeat=3))
    cx = [(c, v) for c in UNIT_COMPLEX for v in ("a", "b", "cross(a,b)")]
    partners = [(c, v) for c in ("1", "-k", "k+1") for v in ("a", "b", "cross(a,b)")]
    seen = set(out)
    for pair in itertools.chain(itertools.product(cx, partners), itertools.product(partners, cx)):
        if pair not in seen:
            out.append(pair)
            seen.add(pair)
    return out


def zero_vec(v: Any) -> bool:
    return all(R.is_zero(x) for x in v)


def combo_inputs(combo: tuple) -> list[Any]:
    """the expression and the equation form of a linear combination, as check_combo builds them"""
    lib_terms = [COEFFS[cn] * vec_term(vn)[0] for cn, vn in combo]
    forms = [sp.Add(*lib_terms)]
    if len(lib_terms) >= 2:
        forms.append(sp.Eq(sp.Add(*lib_terms[:1]), -sp.Add(*lib_terms[1:]), evaluate=False))
    return forms


def evaluation_off_history(chunk: list) -> None:
    """history: the requests of this chunk are first made while sympy's automatic evaluation is
    switched off (whatever they answer there); the answers in normal mode must not remember that.
    One switch per chunk: sympy empties its cache at every switch."""
    from symplyphysics.core.experimental.solvers import solve_for_vector
    c14._setup()
    S = dict(zip("abcd", c14._SYMS))
    inputs = []
    for combo in [c for c in chunk if len(c) <= 2][:5]:
        try:
            inputs.extend(combo_inputs(combo))
        except Exception:  # pylint: disable=broad-except
            pass
    with sp.evaluate(False):
        for inp in inputs:
            for unknown in "ab":
                try:
                    with time_limit(0.5):
                        solve_for_vector(inp, S[unknown])
                except BaseException:  # pylint: disable=broad-except
                    pass


def check_combo(combo: tuple) -> list[tuple[str, str]]:
    from symplyphysics.core.experimental.solvers import solve_for_vector
    c14._setup()
    S = dict(zip("abcd", c14._SYMS))
    out = []
    lib_terms, ref_terms = [], []
    coeff_of: dict[str, list] = {}
    for cn, vn in combo:
        lv, rv, atomic = vec_term(vn)
        c = COEFFS[cn]
        lib_terms.append(c * lv)
        ref_terms.append(R.scale(c, rv))
        for an, mult in atomic.items():
            coeff_of.setdefault(an, []).append(c * mult)
    expr = sp.Add(*lib_terms)
    ref_expr = (sp.S.Zero, ) * 3
    for t in ref_terms:
        ref_expr = R.add(ref_expr, t)
    # the combined coefficient of each atomic vector after sympy's own collection of like terms
    present = {}
    for an, cs in coeff_of.items():
        present[an] = cs
    forms = [("expr", expr)]
    if len(lib_terms) >= 2:
        forms.append(("eq", sp.Eq(sp.Add(*lib_terms[:1]), -sp.Add(*lib_terms[1:]), evaluate=False)))
    tag0 = "+".join(f"{c}*{v}" for c, v in combo)
    for unknown in "abcd":
        for fname, inp in forms:
            for red in (True, False):
                tag = f"{tag0}|{unknown}|{fname}|{'reduce' if red else 'keep'}"
                try:
                    res = solve_for_vector(inp, S[unknown], reduce_factor=red)
                    got: Any = res
                except (ValueError, TypeError) as ex:
                    got = ex
                # which coefficients may the solver have isolated?
                total = sp.simplify(sum(present.get(unknown, []), sp.S.Zero))
                is_term = unknown in present and total != 0
                if isinstance(got, Exception):
                    if is_term and not zero_vec(ref_expr):
                        out.append((tag, f"refused ({type(got).__name__}) although {unknown} is a term "
                            f"of {short(expr, 100)}"))
                    else:
                        out.append((tag, ""))
                    continue
                if unknown not in present:
                    out.append((tag, f"request for the absent vector {unknown} was answered: "
                        f"{short(got, 100)}"))
                    continue
                try:
                    diff = R.sub(c14._vec(got.lhs, c14._COMP), c14._vec(got.rhs, c14._COMP))
                except Exception as ex:
                    out.append((tag, f"returned equation is ill-typed: {short(got, 100)}"))
                    continue
                # admissible scales: the coefficient of any single term in `unknown`, or their sum
                # (sympy collects like terms before the solver sees them)
                # after expand(): the solver splits into terms after expansion, so (k + 1)*b counts
                # as the two terms k*b and b
                cands = list(present[unknown]) + [total] + list(sp.Add.make_args(sp.expand(total)))
                ok = False
                for c in cands:
                    if c == 0:
                        continue
                    if red:
                        want = R.scale(1 / c, ref_expr)
                        if zero_vec(R.sub(diff, want)):
                            ok = True
                    else:
                        if zero_vec(R.sub(diff, ref_expr)) or zero_vec(R.add(diff, ref_expr)):
                            ok = True
                if not ok:
                    out.append((tag, f"returned {short(got, 140)} is not equivalent to "
                        f"{short(expr, 100)} = 0"))
                    continue
                # if the unknown occurs in one term only, the right-hand side solves the equation
                if red and len(present[unknown]) == 1 and len(sp.Add.make_args(sp.expand(
                        total))) == 1 and got.lhs == S[unknown]:
                    comp = dict(c14._COMP)
                    comp[S[unknown]] = c14._vec(got.rhs, c14._COMP)
                    try:
                        val = c14._vec(expr, comp)
                        # terms built from products of the unknown (cross(a, b)) keep the unknown:
                        # only claimed when the unknown occurs in no other term
                        occurs_elsewhere = any(unknown in v and v not in (unknown, "2" + unknown) for
                            _, v in combo)
                        if not occurs_elsewhere and not zero_vec(val):
                            out.append((tag, f"substituting the right-hand side of {short(got, 100)} "
                                f"does not solve the equation"))
                            continue
                    except Exception:
                        pass
                out.append((tag, ""))
    return out


def other_cases() -> list[tuple[str, str]]:
    from symplyphysics.core.experimental.solvers import solve_for_vector, solve_for_scalar, apply
    from symplyphysics.core.experimental.vectors import VectorDot, VectorNorm, VectorCross
    c14._setup()
    a, b, c, d = c14._SYMS
    out = []
    # non-vector inputs are refused
    for name, e in (("scalar-symbol", k), ("number", sp.Integer(3)), ("dot", VectorDot(a, b)),
        ("norm", VectorNorm(a)), ("eq-of-scalars", sp.Eq(VectorDot(a, b), k)), ("vector+scalar", None)):
        if e is None:
            continue
        try:
            r = solve_for_vector(e, a)
            out.append((f"nonvector:{name}", f"non-vector input was answered: {short(r)}"))
        except (TypeError, ValueError):
            out.append((f"nonvector:{name}", ""))
    # a vector that only occurs inside a product is not a term
    for name, e in (("cross-only", VectorCross(a, b) + c), ("scaled-cross", k * VectorCross(a, b))):
        try:
            r = solve_for_vector(e, a)
            out.append((f"not-a-term:{name}", f"answered for a vector that is not a term: {short(r)}"))
        except (TypeError, ValueError):
            out.append((f"not-a-term:{name}", ""))
    # solve_for_scalar: every returned equation is satisfied by its own solution
    x, y = sp.symbols("x y", real=True)
    eqs = [(sp.Eq(2 * x + 3, 7), x), (sp.Eq(k * x + m, 0), x), (x**2 - 4, x), (sp.Eq(x * y, k), y),
        (sp.Eq(VectorDot(a, b) * x, k), x), (sp.Eq(x / k + m * x, 1), x), (sp.Eq(sp.exp(x), k), x),
        (sp.Eq(VectorNorm(a) * x + VectorDot(a, c), 0), x), (sp.Eq(x**3, 8), x),
        (sp.Eq(VectorNorm(a) * x, VectorNorm(b)), x), (sp.Eq(VectorNorm(a) * x**2, k), x),
        # candidate roots that are poles or extraneous: they must not be returned
        (VectorNorm(a) * (x**2 - 4) / (x + 2), x), (sp.Eq(VectorDot(a, b) / (x - 1), x * VectorDot(a,
        b) / (x - 1)), x),
        (k * (x**2 - 1) / (x - 1), x), (sp.Eq(sp.sqrt(x), -k), x),
        (VectorDot(a, b) * (x - 3) * (x + 1) / (x - 3), x)]
    for i, (f, s) in enumerate(eqs):
        try:
            res = solve_for_scalar(f, s)
        except IndexError:
            # sympy found no solution it could verify (e.g. a dot product in the denominator):
            # nothing was returned, so nothing is claimed
            out.append((f"scalar:{i}", ""))
            continue
        except Exception as ex:
            out.append((f"scalar:{i}", f"solve_for_scalar raised {type(ex).__name__}: {short(ex)}"))
            continue
        ok = isinstance(res, list) and len(res) >= 1
        for e in res if ok else []:
            if not isinstance(e, sp.Equality) or e.lhs != s:
                ok = False
                continue
            f0 = f.lhs - f.rhs if isinstance(f, sp.Equality) else f
            resid = f0.subs(s, e.rhs)
            try:
                val = c14.lib_eval(resid, c14._COMP)
            except Exception:
                val = resid
            if sp.sympify(val).has(sp.nan, sp.zoo, sp.oo, -sp.oo) or not R.is_zero(val):
                ok = False
        out.append((f"scalar:{i}", "" if ok else f"solve_for_scalar({short(f)}, {s}) returned "
            f"{short(res)} which its own solution does not satisfy"))
    # apply: f on both sides
    fs = [("dot-with-b", lambda v: VectorDot(v, b)), ("norm", VectorNorm), ("times-k", lambda v: k * v),
        ("cross-with-c", lambda v: VectorCross(v, c))]
    inputs = [("eq", sp.Eq(a + b, k * c, evaluate=False)), ("expr", a - 2 * b), ("symbol", a),
        ("cross", VectorCross(a, b)), ("eq-cross", sp.Eq(VectorCross(a, b), c, evaluate=False)),
        ("scaled-cross", k * VectorCross(a, b) - c)]
    # scalar-valued equations and bare scalar expressions (an expression e stands for e = 0),
    # every kind of scalar node at the top
    sfs = [("times-k", lambda v: k * v), ("square", lambda v: v**2), ("plus-one", lambda v: v + 1),
        ("times-a", lambda v: v * a)]
    from symplyphysics.core.experimental.vectors import VectorMixedProduct
    sinputs = [("dot", VectorDot(a, b)), ("norm", VectorNorm(a)), ("mixed", VectorMixedProduct(a, b,
        c)), ("k*dot", k * VectorDot(a, b)), ("dot+1", VectorDot(a, b) + 1), ("k", k), ("zero",
        sp.S.Zero), ("eq-dot", sp.Eq(VectorDot(a, b), k, evaluate=False)), ("eq-norm", sp.Eq(
        VectorNorm(a), VectorNorm(b), evaluate=False)), ("dot-of-sums", VectorDot(a + b, a - c))]
    pairs = list(itertools.product(fs, inputs)) + list(itertools.product(sfs, sinputs))
    for (fn_name, fn), (in_name, inp) in pairs:
        r = apply(inp, fn)
        lhs, rhs = (inp.lhs, inp.rhs) if isinstance(inp, sp.Equality) else (inp, sp.S.Zero)
        try:
            ok = isinstance(r, sp.Equality) and c14.same(c14.lib_eval(r.lhs, c14._COMP),
                c14.lib_eval(fn(lhs), c14._COMP)) and c14.same(c14.lib_eval(r.rhs, c14._COMP),
                c14.lib_eval(fn(rhs), c14._COMP))
        except Exception as ex:
            ok = False
        out.append((f"apply:{fn_name}:{in_name}", "" if ok else
            f"apply({short(inp)}, {fn_name}) returned {short(r)}"))
    return out


def _work(chunk: Any) -> dict:
    res: dict[str, Any] = {"n": 0, "keys": [], "outcomes": {}, "violations": [], "undecided": [],
        "samples": []}
    if chunk == "other":
        cases = other_cases()
        payload: Any = "other"
    else:
        cases = []
        evaluation_off_history(chunk)
        for combo in chunk:
            try:
                with time_limit(60):
                    cases.extend(check_combo(combo))
            except CaseTimeout:
                res["undecided"].append((str(combo), "timeout"))
    for tag, v in cases:
        res["n"] += 1
        res["keys"].append(tag)
        res["outcomes"]["holds" if not v else "fails"] = res["outcomes"].get("holds" if not v else
            "fails", 0) + 1
        if v:
            res["violations"].append((tag, v, {"tag": tag}))
    if cases:
        res["samples"].append(cases[len(cases) // 2][0])
    return res


def main(run: Run) -> int:
    cs = rotate(combos(run.thorough), run.seed * 7)
    chunks: list[Any] = [cs[i:i + 25] for i in range(0, len(cs), 25)]
    chunks.append("other")
    for r in pmap(_work, chunks):
        n = r.pop("n")
        run.evaluations += n
        r["n"] = 0
        run.absorb([r])
    run.note(linear_combinations=len(cs))
    return run.finish(
        rule="all linear combinations of 1..2 terms over the coefficient alphabet (real, symbolic, radical, 4 complex of modulus one) x 7 vector terms and of 3 "
        "terms over a reduced alphabet, x unknown in {a, b, c, d (absent)} x {expression, equation "
        "split over both sides} x {reduce_factor on, off}; plus non-vector inputs, vectors that are "
        "not terms, 9 scalar equations, 64 apply cases (4 vector functions x 6 vector inputs, 4 scalar "
        "functions x 10 scalar inputs: equations and bare expressions with every node kind on top)",
        exhaustive=True,
        assumptions=["equivalence decided by component expansion in R^3 (exact normal form)",
            "the admissible divisor is the coefficient of any one term in the unknown, or their sum "
            "when sympy has collected like terms"])


def replay(case: dict) -> list[str]:
    tag = case["tag"]
    if "|" not in tag:
        return [f"{k_}: {v}" for k_, v in other_cases() if v and k_ == tag]
    combo = tuple(tuple(t.split("*", 1)) for t in tag.split("|")[0].split("+") if t)
    # coefficients may contain '+': rebuild by matching against the alphabet
    for cb in combos(True):
        if "+".join(f"{c}*{v}" for c, v in cb) == tag.split("|")[0]:
            return [f"{k_}: {v}" for k_, v in check_combo(cb) if v and k_ == tag]
    return []

"""C02 - calculation functions return solutions of the law they belong to.

Explorer: per function, the default argument tuple and all tuples within <= k deviations
(magnitude x10^3 / x10^-3 / sign, unit spelling kilo / milli / cm-g-min) of it.
Oracles: (1) residual of the module's own equation at SI values; (2) unit metamorphism;
(3) allow-list of magnitude / ceiling functions; (4) inverse pairs of vector laws.
"""
from __future__ import annotations

import itertools
import json
import os
from typing import Any, Optional

import mpmath
import sympy as sp
from sympy.physics.units import Quantity as SymQuantity

from .. import args, catalogue, dims, values
from ..harness import ROOT, Run, pmap, rotate, time_limit, CaseTimeout, short

PROPERTY = "C02"
LEVEL = "exploration"
ALLOW = os.path.join(ROOT, "data", "c02_magnitude_or_ceil.json")

SCALES = [1e3, 1e-3, -1.0]
EXTREME = [1e20, 1e-20]
SPELLINGS = ["kilo", "milli", "named"]


def si_number(x: Any) -> Any:
    """SI value (mpmath number) of a returned / passed scalar, or None"""
    if isinstance(x, SymQuantity):
        dv = dims.of_dimension(x.dimension)
        if isinstance(dv, dims.AnyDim):
            dv = dims.ONE
        return values.raw_to_si(x.scale_factor, dv)
    if isinstance(x, (int, float, complex)):
        return mpmath.mpmathify(x)
    if isinstance(x, sp.Expr) and x.is_number:
        return values.mpc(x)
    return None


def si_struct(x: Any) -> Any:
    """nested list of SI numbers for scalars / sequences / quantity vectors"""
    if hasattr(x, "components") and hasattr(x, "coordinate_system"):
        return [si_struct(c) for c in x.components]
    if isinstance(x, (list, tuple)):
        return [si_struct(c) for c in x]
    v = si_number(x)
    if v is None:
        raise ValueError(f"no SI value for {type(x).__name__}")
    return v


def _flat(a: Any) -> list:
    return [y for x in a for y in _flat(x)] if isinstance(a, list) else [a]


def struct_close(a: Any, b: Any, rel: float, scale: Any = None) -> bool:
    if isinstance(a, list) != isinstance(b, list):
        return False
    if isinstance(a, list):
        if len(a) != len(b):
            return False
        if scale is None:  # components of one vector are compared on the vector's own scale
            mags = [abs(x) for x in _flat(a) + _flat(b) if not (mpmath.isnan(x) or mpmath.isinf(x))]
            scale = max(mags) if mags else 0
        return all(struct_close(x, y, rel, scale) for x, y in zip(a, b))
    return values.close(a, b, rel, max(1e-300, rel * scale if scale else 0))


def main_equation(mod: Any) -> Any:
    for n in ("law", "definition"):
        v = getattr(mod, n, None)
        if v is not None and isinstance(v, sp.Equality):
            return v
    return None


class FunctionCase:

    def __init__(self, modname: str, mod: Any, fname: str, fn: Any, allow: dict):
        self.modname, self.fname, self.fn = modname, fname, fn
        self.key = f"{modname}.{fname}"
        self.spec = catalogue.spec(fn)
        self.params, self.why = args.plan(fn, mod)
        if not self.why and any(p.kind == "free" for p in self.params):
            if not args.resolve_free(fn, self.params, mod):
                self.why = "no dimension found for the unguarded quantity parameters"
        self.law = main_equation(mod)
        self.allow = allow.get(self.key)
        self.imprecise = 0
        self.mapping: Optional[dict] = None
        self.out_sym = None
        self.mapped_from_source = False
        self._map()
        self._map_from_source(mod)

    def _map(self) -> None:
        if self.why or self.law is None:
            return
        free = {s for s in self.law.free_symbols}
        if self.law.atoms(sp.Derivative, sp.Integral, sp.Sum) or any(
                type(a).__name__ in ("IndexedSum", "IndexedProduct") for a in sp.preorder_traversal(
                self.law)):
            return
        if self.law.atoms(sp.core.function.AppliedUndef):
            return
        m = {}
        for p in self.params:
            if p.kind == "default":
                continue
            if p.kind not in ("quantity", "number", "int") or not isinstance(p.decl, sp.Symbol):
                return
            m[p.name] = p.decl
        out = self.spec["output"]
        if not isinstance(out, sp.Symbol):
            return
        if not (set(m.values()) | {out}) >= free:
            return
        if out not in free:
            return
        self.mapping, self.out_sym = m, out

    def _map_from_source(self, mod: Any) -> None:
        """second way to the parameter <-> symbol correspondence, for functions whose guards are
        dimensions rather than symbols: the function's own substitution ``.subs({symbol: param_})``
        (or ``.subs(symbol, param_)``) and the symbol it solves the law for.  Only plain
        name-to-name substitutions are accepted; anything else leaves the function unmapped."""
        import ast
        import inspect
        import textwrap
        if self.mapping is not None or self.why or self.law is None:
            return
        if self.law.atoms(sp.Derivative, sp.Integral, sp.Sum, sp.core.function.AppliedUndef) or any(
                type(a).__name__ in ("IndexedSum", "IndexedProduct") for a in sp.preorder_traversal(
                self.law)):
            return
        try:
            tree = ast.parse(textwrap.dedent(inspect.getsource(self.spec["inner"])))
        except (OSError, TypeError, SyntaxError):
            return

        def module_symbol(node: ast.AST) -> Any:
            try:
                obj = eval(compile(ast.Expression(node), "<map>", "eval"), vars(mod))  # names only
            except Exception:  # pylint: disable=broad-except
                return None
            return obj if isinstance(obj, sp.Symbol) else None

        def plain(node: ast.AST) -> bool:
            return isinstance(node, ast.Name) or (isinstance(node, ast.Attribute) and plain(
                node.value))

        names = {p.name for p in self.params if p.kind != "default"}
        m: dict[str, Any] = {}
        out_sym = None
        for node in ast.walk(tree):
            if not isinstance(node, ast.Call) or not isinstance(node.func, ast.Attribute):
                if isinstance(node, ast.Call) and isinstance(node.func, ast.Name) and \
                        node.func.id == "solve" and len(node.args) >= 2 and plain(node.args[1]):
                    cand = module_symbol(node.args[1])
                    if cand is not None:
                        if out_sym is not None and cand != out_sym:
                            return
                        out_sym = cand
                continue
            if node.func.attr != "subs":
                continue
            pairs: list[tuple[ast.AST, ast.AST]] = []
            if len(node.args) == 1 and isinstance(node.args[0], ast.Dict):
                pairs = list(zip(node.args[0].keys, node.args[0].values))  # type: ignore[arg-type]
            elif len(node.args) == 2:
                pairs = [(node.args[0], node.args[1])]
            for k, v in pairs:
                if k is None or not plain(k):
                    return
                sym = module_symbol(k)
                if isinstance(v, ast.Name) and v.id in names:
                    if sym is None or v.id in m and m[v.id] != sym:
                        return
                    m[v.id] = sym
                elif sym is not None and sym in self.law.free_symbols:
                    return  # a law symbol replaced by something that is not a bare parameter
        if out_sym is None:
            # `law.rhs` style: the left-hand side is the result
            src = ast.unparse(tree)
            if (".rhs" in src) and isinstance(self.law.lhs, sp.Symbol):
                out_sym = self.law.lhs
        if out_sym is None or set(m) != names or out_sym in m.values():
            return
        if any(p.kind not in ("quantity", "number", "int") for p in self.params if p.kind !=
                "default"):
            return
        if len(set(m.values())) != len(m) or out_sym not in self.law.free_symbols:
            return
        if not (set(m.values()) | {out_sym}) >= set(self.law.free_symbols):
            return
        self.mapping, self.out_sym = m, out_sym
        self.mapped_from_source = True
        # an unguarded `float` parameter that stands for a dimensional symbol takes a quantity
        for prm in self.params:
            if prm.kind == "number" and prm.decl is None and prm.name in m:
                try:
                    dv = dims.of_dimension(m[prm.name].dimension)
                except Exception:  # pylint: disable=broad-except
                    continue
                if isinstance(dv, dims.DimVec) and not dv.symbolic and not dv.dimensionless:
                    prm.kind, prm.dim = "quantity", dv

    # -- one call ---------------------------------------------------------------------------------
    def call(self, scales: dict, spellings: dict, style: str = "keywords") -> tuple[str, Any, Any]:
        """(status, result or exception, call kwargs); style: keywords in signature order (default),
        keywords in reversed order, all positional, first positional and the rest keywords"""
        try:
            kw = args.call_args(self.params, scales, spellings)
        except Exception as ex:
            return "unbuildable", ex, None
        try:
            with time_limit(30):
                if style == "keywords":
                    r = self.fn(**kw)
                elif style == "reversed":
                    r = self.fn(**dict(reversed(list(kw.items()))))
                elif style == "positional":
                    names = []
                    for prm in self.spec["signature"].parameters.values():
                        if prm.kind not in (prm.POSITIONAL_ONLY, prm.POSITIONAL_OR_KEYWORD) or \
                                prm.name not in kw:
                            break
                        names.append(prm.name)
                    r = self.fn(*[kw[n] for n in names], **{k: v for k, v in kw.items() if k not in
                        names})
                else:
                    first = next(iter(kw))
                    rest = dict(reversed([(k, v) for k, v in kw.items() if k != first]))
                    r = self.fn(kw[first], **rest)
            return "returned", r, kw
        except CaseTimeout:
            return "timeout", None, kw
        except RecursionError as ex:
            return "refused", ex, kw
        except Exception as ex:
            return "refused", ex, kw

    def residual(self, kw: dict, result: Any) -> str:
        """'' if the law holds (or cannot be judged); violation text otherwise"""
        if self.mapping is None:
            return ""
        try:
            out = si_number(result)
            if out is None:
                return ""
            sub = {}
            for pname, sym in self.mapping.items():
                v = si_number(kw[pname])
                if v is None:
                    return ""
                sub[sym] = v
        except Exception:
            return ""
        consts = {q: values.raw_to_si(q.scale_factor, _dv(q)) for q in self.law.atoms(SymQuantity)}

        def evaluate(outv: Any) -> tuple[Any, Any]:
            rep = {k: _sym(v) for k, v in {**sub, self.out_sym: outv, **consts}.items()}
            return (values.mpc(self.law.lhs.xreplace(rep)), values.mpc(self.law.rhs.xreplace(rep)))

        def terms_scale(rep: dict) -> Any:
            sc = mpmath.mpf(0)
            for side in (self.law.lhs, self.law.rhs):
                for t in sp.Add.make_args(sp.expand_mul(side) if side.is_Add or side.is_Mul else side):
                    try:
                        sc = max(sc, abs(values.mpc(t.xreplace(rep))))
                    except Exception:
                        pass
            return sc

        def holds(outv: Any) -> Optional[bool]:
            try:
                l, r = evaluate(outv)
            except Exception:
                return None
            if mpmath.isnan(l) or mpmath.isnan(r) or mpmath.isinf(l) or mpmath.isinf(r):
                return None
            if all(mpmath.mpmathify(v).imag == 0 for v in sub.values()) and (abs(outv.imag) >
                    1e-12 * abs(outv) or abs(l.imag) > 1e-12 * abs(l) or abs(r.imag) > 1e-12 * abs(r)):
                return None  # real inputs outside the real domain of the law: branch-dependent
            rep = {k: _sym(v) for k, v in {**sub, self.out_sym: outv, **consts}.items()}
            scale = max(abs(l), abs(r), terms_scale(rep))
            if abs(l - r) <= 1e-6 * scale or abs(l - r) <= mpmath.mpf("1e-300"):
                return True
            # the output, rounded to 12 significant digits, is a pole of the law (e.g. v = -c in
            # 1 / (1 + v / c)): the solution differs from the pole by less than the working
            # precision, so the residual at the returned number says nothing
            if outv.imag == 0 and outv != 0:
                try:
                    rounded = mpmath.mpc(mpmath.mpf(mpmath.nstr(outv.real, 12, strip_zeros=False)))
                    lr = evaluate(rounded)
                    if any(mpmath.isnan(v) or mpmath.isinf(v) for v in lr):
                        return None
                except (ZeroDivisionError, TypeError, ValueError):
                    return None
            # backward error: a sign change of the (real) residual within 1e-9 / 1e-12 relative of
            # the output, on either side
            try:
                if outv.imag == 0:
                    def res(x: Any) -> Any:
                        lr = evaluate(x)
                        d = lr[0] - lr[1]
                        if abs(d.imag) > 1e-12 * abs(d):
                            raise ValueError("complex residual")
                        return d.real
                    r0 = res(outv)
                    for eps in ("1e-9", "1e-12"):
                        for side in (1, -1):
                            try:
                                r1 = res(outv * (1 + side * mpmath.mpf(eps)))
                            except ValueError:
                                continue
                            if r0 * r1 <= 0:
                                return True
            except Exception:
                pass
            # forward error: the nearest root of the residual in the output variable
            try:
                f = lambda x: (lambda lr: lr[0] - lr[1])(evaluate(mpmath.mpmathify(x)))
                root = mpmath.findroot(f, (outv, outv * (1 + mpmath.mpf("1e-7")) + mpmath.mpf(
                    "1e-320")), solver="secant", tol=1e-30, maxsteps=30, verify=False)
                if abs(root - outv) <= 2e-5 * abs(outv):
                    self.imprecise += 1
                    return True
            except Exception:
                pass
            return False

        if self.allow == "abs":
            ok = holds(out)
            if ok is None or ok or holds(-out):
                return ""
            if out.imag == 0 and out.real >= 0:
                # complex magnitude: |x| where x solves the law
                return self._abs_complex(sub, consts, out)
            return f"documented to return a magnitude of the solution but returned {out}"
        if self.allow in ("floor", "ceil") and abs(out) > 1e6 and holds(out):
            return ""  # large counts: the rounding is below the relative tolerance
        if self.allow == "floor":
            n = out
            if n.imag != 0 or n.real != int(n.real):
                return f"documented to return an integer count but returned {out}"
            try:
                a = evaluate(n)
                b = evaluate(n + 1)
                ra, rb = (a[0] - a[1]).real, (b[0] - b[1]).real
            except Exception:
                return ""
            if ra == 0 or ra * rb < 0:
                return ""
            return f"returned {int(n.real)} but the law has no root in [{int(n.real)}, {int(n.real) + 1})"
        if self.allow == "ceil":
            n = out
            if n.imag != 0 or n.real != int(n.real):
                return f"documented to return a rounded-up integer but returned {out}"
            try:
                a = evaluate(n - 1)
                b = evaluate(n)
                ra, rb = (a[0] - a[1]).real, (b[0] - b[1]).real
            except Exception:
                return ""
            if ra * rb <= 0:
                return ""
            return f"returned {int(n.real)} but the law has no root in ({int(n.real) - 1}, {int(n.real)}]"
        ok = holds(out)
        if ok is None or ok:
            return ""
        if any(mpmath.mpmathify(v).real < 0 for v in sub.values()):
            # a negative argument may put the tuple outside the law's domain altogether: only
            # judged if the law is satisfiable in the output variable for these arguments
            f = lambda x: (lambda lr: lr[0] - lr[1])(evaluate(mpmath.mpmathify(x)))
            sat = False
            for start in (out, -out, mpmath.mpf(1), mpmath.mpf(-1), out * 10, out / 10):
                try:
                    root = mpmath.findroot(f, start, tol=1e-25, maxsteps=60)
                    l2, r2 = evaluate(root)
                    if abs(l2 - r2) <= 1e-12 * max(abs(l2), abs(r2), mpmath.mpf("1e-300")):
                        sat = True
                        break
                except Exception:
                    continue
            if not sat:
                return ""
        l, r = evaluate(out)
        return (f"law does not hold: lhs={mpmath.nstr(l, 12)} rhs={mpmath.nstr(r, 12)} with result "
            f"{mpmath.nstr(out, 12)} and arguments { {k: mpmath.nstr(v, 6) for k, v in ((p, si_number(kw[p])) for p in self.mapping)} }")

    def _abs_complex(self, sub: dict, consts: dict, out: Any) -> str:
        try:
            rep = {k: _sym(v) for k, v in {**sub, **consts}.items()}
            sols = sp.solve(self.law.xreplace(rep), self.out_sym)
            for s in sols:
                if values.close(abs(values.mpc(s)), out, 1e-6):
                    return ""
            return f"returned {out} which is not the magnitude of any root {sols}"
        except Exception:
            return ""


def _dv(q: Any) -> dims.DimVec:
    d = dims.of_dimension(q.dimension)
    return dims.ONE if isinstance(d, dims.AnyDim) else d


def _sym(v: Any) -> Any:
    v = mpmath.mpmathify(v)
    if isinstance(v, mpmath.mpc) and v.imag != 0:
        return sp.Float(mpmath.nstr(v.real, 80), 80) + sp.I * sp.Float(mpmath.nstr(v.imag, 80), 80)
    return sp.Float(mpmath.nstr(v.real, 80), 80)


def base_candidates(scalable: list, drivable: list) -> list[dict]:
    """the default tuple first, then single and pairwise magnitude deviations, simplest first"""
    menu = [1e-3, 1e3, 0.1, 10.0, -1.0]
    cands: list[dict] = [{}]
    if any(p.kind == "qvector" for p in drivable):
        cands.append({"__vshape__": "axis"})  # mutually perpendicular vector arguments
    for p in scalable:
        for s_ in menu:
            cands.append({p.name: s_})
    for (p, q) in itertools.combinations(scalable, 2):
        for s_, t_ in itertools.product(menu[:4], repeat=2):
            cands.append({p.name: s_, q.name: t_})
    return cands[:121]


def near_tuple(base_scales: dict, scalable: list, variant: str) -> dict:
    """a tuple that differs from the base tuple in the fourth significant digit of its magnitudes
    (4e-4 is the largest step that leaves every menu magnitude the same to 3 digits; different
    steps per parameter, because many laws depend on ratios only)"""
    near = dict(base_scales)
    for i, p in enumerate(scalable):
        if p.kind != "int" and (variant == "all" or p.kind != "number"):
            near[p.name] = base_scales.get(p.name, 1.0) * (1 + 4e-4 * (1 + i % 3) / 3)
    return near


def _plain(x: Any) -> Any:
    return [_plain(y) for y in x] if isinstance(x, list) else mpmath.nstr(x, 45)


def _unplain(x: Any) -> Any:
    return [_unplain(y) for y in x] if isinstance(x, list) else mpmath.mpmathify(x)


def first_call_results(fc: FunctionCase, scalable: list, drivable: list) -> Any:
    """(run in a forked child, before the function was ever called in this process) for the first
    candidate whose near tuples are accepted: the results of the near tuples as first calls"""
    for sc in base_candidates(scalable, drivable):
        out = {}
        for variant in ("all", "quantities"):
            near = near_tuple(sc, scalable, variant)
            if near == sc:
                continue
            st, r, _ = fc.call(near, {})
            if st != "returned":
                out = {}
                break
            try:
                out[variant] = _plain(si_struct(r))
            except Exception:  # pylint: disable=broad-except
                out = {}
                break
        if out:
            return {"scales": sc, "results": out}
    return None


def explore_function(fc: FunctionCase, bound: int) -> dict:
    res: dict[str, Any] = {"n": 0, "keys": [], "outcomes": {}, "violations": [], "undecided": [],
        "samples": []}

    def count(o: str) -> None:
        res["outcomes"][o] = res["outcomes"].get(o, 0) + 1

    if fc.why:
        count("uncovered")
        res["undecided"].append((fc.key, f"cannot synthesise arguments: {fc.why}"))
        return res
    drivable = [p for p in fc.params if p.kind != "default"]
    scalable = [p for p in drivable if p.kind in ("quantity", "number", "seq", "qvector", "qvseq",
        "tupledecl", "nested")]
    spellable = [p for p in drivable if p.kind in ("quantity", "seq", "qvector", "qvseq", "nested") and
        p.dim is not None and not p.dim.dimensionless]
    # default tuple: all at m0 in SI; otherwise the first accepted tuple, simplest first
    from .c03 import in_child
    fresh = in_child(lambda: first_call_results(fc, scalable, drivable), timeout=300)
    base_scales: dict = {}
    status, r, kw = fc.call({}, {})
    res["n"] += 1
    if status != "returned":
        found = False
        for sc in base_candidates(scalable, drivable)[1:]:
            status, r, kw = fc.call(sc, {})
            res["n"] += 1
            if status == "returned":
                base_scales, found = sc, True
                break
        if not found:
            count("no-accepted-tuple")
            res["undecided"].append((fc.key, f"no accepted argument tuple ({type(r).__name__}: "
                f"{short(r, 80)})"))
            return res
    try:
        base_struct = si_struct(r)
    except Exception as ex:
        count("unreadable-result")
        res["undecided"].append((fc.key, f"result not readable: {short(ex, 80)}"))
        return res
    count("mapped" if fc.mapping is not None else "unmapped")
    # history: right after the base tuple, a tuple that differs from it in the fourth significant
    # digit of every magnitude (a result must not depend on what was computed before); the base
    # call is repeated at the very end
    for variant in ("all", "quantities"):  # every magnitude, or only those of the quantities
        near0 = near_tuple(base_scales, scalable, variant)
        if near0 == base_scales:
            continue
        st_n, r_n, kw_n = fc.call(near0, {})
        res["n"] += 1
        if st_n == "returned":
            count("returned")
            res["keys"].append(fc.key + f"|near-after-base:{variant}")
            # the same call made as the very first call of a fresh process gave ...
            if isinstance(fresh, dict) and fresh.get("scales") == base_scales and variant in \
                    fresh.get("results", {}):
                try:
                    same_fresh = struct_close(si_struct(r_n), _unplain(fresh["results"][variant]),
                        1e-12)
                except Exception:  # pylint: disable=broad-except
                    same_fresh = True
                if not same_fresh:
                    res["violations"].append((fc.key + "|history", "called right after the base "
                        f"tuple the function returns {short(si_struct(r_n), 80)}, as the first call "
                        f"of a fresh process {short(fresh['results'][variant], 80)}", {"module":
                        fc.modname, "function": fc.fname, "scales": near0, "spellings": {},
                        "history": True}))
                    continue
            v_n = fc.residual(kw_n, r_n)
            try:
                if v_n and not _ill_conditioned(fc, near0, si_struct(r_n)):
                    res["violations"].append((fc.key + "|law", v_n + " (called right after the base "
                        "tuple)", {"module": fc.modname, "function": fc.fname, "scales": near0,
                        "spellings": {}, "history": True}))
            except Exception:  # pylint: disable=broad-except
                pass

    def judge(scales: dict, spellings: dict, tag: str) -> None:
        st, rr, kk = fc.call(scales, spellings)
        res["n"] += 1
        key = f"{fc.key}|{tag}"
        if st != "returned":
            count("refused" if st == "refused" else st)
            return
        res["keys"].append(key)
        count("returned")
        v = fc.residual(kk, rr)
        if v and _ill_conditioned(fc, scales, si_struct(rr)):
            count("ill-conditioned")
            return
        if v:
            res["violations"].append((fc.key + "|law", v, {"module": fc.modname, "function":
                fc.fname, "scales": scales, "spellings": spellings}))
            return
        if spellings and scales == base_scales:
            # metamorphic: same physical tuple, other spelling
            try:
                st2 = si_struct(rr)
            except Exception:
                return
            if not struct_close(st2, base_struct, 1e-9):
                if _ill_conditioned(fc, scales, base_struct):
                    count("ill-conditioned")
                    return
                res["violations"].append((fc.key + "|units", f"result depends on the unit spelling "
                    f"{spellings}: {short(st2, 100)} vs {short(base_struct, 100)}",
                    {"module": fc.modname, "function": fc.fname, "scales": scales,
                    "spellings": spellings}))

    # 0 deviations
    v0 = fc.residual(kw, r)
    res["keys"].append(fc.key + "|default")
    if v0 and _ill_conditioned(fc, base_scales, base_struct):
        count("ill-conditioned")
        v0 = ""
    if v0:
        res["violations"].append((fc.key + "|law", v0, {"module": fc.modname, "function": fc.fname,
            "scales": base_scales, "spellings": {}}))
    devs: list[tuple[str, str, Any]] = []
    for p in scalable:
        for s in (SCALES + [1e7, 1e-7] + EXTREME if bound > 1 else SCALES):
            if s < 0 and isinstance(p.decl, sp.Symbol) and (p.decl.is_positive or
                    p.decl.is_nonnegative):
                continue  # the declared symbol is positive: a negative value is outside the domain
            devs.append(("scale", p.name, s))
    for p in spellable:
        for s in SPELLINGS:
            devs.append(("spell", p.name, s))
    for k in range(1, bound + 1):
        for combo in itertools.combinations(devs, k):
            names = [(c[0], c[1]) for c in combo]
            if len(set(names)) < len(names):
                continue
            sc = dict(base_scales)
            spl: dict = {}
            for kind, name, val in combo:
                if kind == "scale":
                    sc[name] = sc.get(name, 1.0) * val
                else:
                    spl[name] = val
            judge(sc, spl, ";".join(f"{a}:{b}:{c}" for a, b, c in combo))
    # rounding functions: tuples that put the law's solution 1e-10 above / below the integers next
    # to the default result (found by a root search in the scale of one argument)
    if fc.allow in ("ceil", "floor") and fc.mapping:
        for p_, lam, tag in integer_boundary_scales(fc, kw, r, scalable, base_scales):
            sc = dict(base_scales)
            sc[p_] = sc.get(p_, 1.0) * lam
            judge(sc, {}, tag)
            count("integer-boundary")
    # calling convention: the result must not depend on how the arguments are passed
    if len(drivable) >= 1:
        for style in ("reversed", "positional", "mixed"):
            st, rr, kk = fc.call(dict(base_scales), {}, style)
            res["n"] += 1
            key = f"{fc.key}|style:{style}"
            if st != "returned":
                count("refused-style")
                if st == "refused":
                    res["violations"].append((fc.key + "|style", f"accepted with keyword arguments in "
                        f"signature order but raised {type(rr).__name__} ({short(rr, 100)}) when "
                        f"called in the '{style}' style", {"module": fc.modname, "function": fc.fname,
                        "scales": base_scales, "spellings": {}, "style": style}))
                continue
            res["keys"].append(key)
            count("returned")
            try:
                same = struct_close(si_struct(rr), base_struct, 1e-12)
            except Exception:
                same = True
            if not same:
                res["violations"].append((fc.key + "|style", f"result depends on the calling "
                    f"convention '{style}': {short(si_struct(rr), 80)} vs {short(base_struct, 80)}",
                    {"module": fc.modname, "function": fc.fname, "scales": base_scales, "spellings":
                    {}, "style": style}))
    if spellable:
        for s in SPELLINGS:
            judge(dict(base_scales), {p.name: s for p in spellable}, f"all:{s}")
    # all magnitudes rescaled together, including extreme scales (one deviation of the whole tuple)
    quantities = [p for p in scalable if p.kind in ("quantity", "seq", "qvector", "qvseq", "nested")]
    for g in EXTREME:
        if quantities:
            judge({**base_scales, **{p.name: base_scales.get(p.name, 1.0) * g for p in quantities}},
                {}, f"all-quantities:x{g:g}")
    st_b2, r_b2, _ = fc.call(dict(base_scales), {})
    res["n"] += 1
    if st_b2 == "returned":
        count("returned")
        res["keys"].append(fc.key + "|repeated-base-call")
        try:
            same_again = struct_close(si_struct(r_b2), base_struct, 1e-12)
        except Exception:  # pylint: disable=broad-except
            same_again = True
        if not same_again:
            res["violations"].append((fc.key + "|history", "the base call gives another result "
                f"after the other calls: {short(si_struct(r_b2), 80)} vs {short(base_struct, 80)}",
                {"module": fc.modname, "function": fc.fname, "scales": base_scales, "spellings": {},
                "history": True}))
    if not res["samples"]:
        res["samples"].append({"function": fc.key, "default_result": short(base_struct, 60),
            "mapped_to_law": fc.mapping is not None, "deviations": len(devs)})
    return res


def integer_boundary_scales(fc: FunctionCase, kw: dict, result: Any, scalable: list,
    base_scales: dict) -> list[tuple[str, float, str]]:
    out = []
    try:
        n0 = si_number(result)
        n0 = int(mpmath.mpmathify(n0).real)
        sub = {sym: si_number(kw[pn]) for pn, sym in fc.mapping.items()}
        consts = {q: values.raw_to_si(q.scale_factor, _dv(q)) for q in fc.law.atoms(SymQuantity)}
    except Exception:  # pylint: disable=broad-except
        return out
    if any(v is None for v in sub.values()) or abs(n0) > 1000:
        return out

    def resid(sym: Any, lam: Any, target: Any) -> Any:
        vals = dict(sub)
        vals[sym] = mpmath.mpmathify(vals[sym]) * lam
        rep = {k: _sym(v) for k, v in {**vals, fc.out_sym: target, **consts}.items()}
        return values.mpc(fc.law.lhs.xreplace(rep)) - values.mpc(fc.law.rhs.xreplace(rep))

    old_dps = mpmath.mp.dps
    mpmath.mp.dps = 40
    try:
        for p in scalable:
            if p.kind not in ("quantity", "number") or p.name not in fc.mapping:
                continue
            sym = fc.mapping[p.name]
            for m_ in (n0 - 1, n0, n0 + 1):
                if m_ < 1:
                    continue
                for delta in ("1e-10", "-1e-10", "4e-10"):
                    target = mpmath.mpf(m_) + mpmath.mpf(delta)
                    try:
                        lam = mpmath.findroot(lambda x: resid(sym, x, target).real, (mpmath.mpf(1),
                            mpmath.mpf("1.01")), solver="secant", tol=1e-30, maxsteps=60)
                    except Exception:  # pylint: disable=broad-except
                        continue
                    if lam.imag != 0 if isinstance(lam, mpmath.mpc) else False:
                        continue
                    lam = mpmath.mpf(lam.real if isinstance(lam, mpmath.mpc) else lam)
                    if not mpmath.mpf("0.05") < lam < 20:
                        continue
                    # the scale is applied in double precision: keep it only if the solution is
                    # still on the intended side of the integer, at least 1e-11 away from it
                    lamf = float(lam)
                    try:
                        chk = mpmath.findroot(lambda x: resid(sym, mpmath.mpf(lamf), x).real, target,
                            tol=1e-30, maxsteps=40)
                    except Exception:  # pylint: disable=broad-except
                        continue
                    chk = mpmath.mpf(chk.real if isinstance(chk, mpmath.mpc) else chk)
                    if abs(chk - target) > mpmath.mpf("5e-11"):
                        continue
                    out.append((p.name, lamf, f"integer-boundary:{p.name}:{m_}{'+' if delta[0] != '-' else ''}{delta}"))
    finally:
        mpmath.mp.dps = old_dps
    return out


def _ill_conditioned(fc: FunctionCase, scales: dict, base_struct: Any) -> bool:
    """a 1e-12 relative input perturbation changes the output by more than 1e-9"""
    for p in fc.params:
        if p.kind != "quantity":
            continue
        sc = dict(scales)
        sc[p.name] = sc.get(p.name, 1.0) * (1 + 1e-12)
        st, rr, _ = fc.call(sc, {})
        if st == "returned":
            try:
                if not struct_close(si_struct(rr), base_struct, 1e-9):
                    return True
            except Exception:
                pass
    return False


# ---- (4) vector laws: forms solved for different unknowns are mutual inverses ---------------------


def vector_pairs(mod: Any) -> list[tuple[str, Any, str, Any, str]]:
    import inspect
    fs = []
    for n, f in catalogue.functions(mod):
        if catalogue.spec(f)["decorated"]:
            continue
        for suf in ("_law", "_definition"):
            if n.endswith(suf):
                fs.append((n, f, n[:-len(suf)], list(inspect.signature(f).parameters)))
    out = []
    for (nf, f, of, pf), (ng, g, og, pg) in itertools.permutations(fs, 2):
        # g takes f's output as parameter `x`, and returns one of f's parameters
        xs = [p for p in pg if _same_name(p, of)]
        ys = [p for p in pf if _same_name(p, og)]
        if len(xs) != 1 or len(ys) != 1:
            continue
        rest_g = [p for p in pg if p != xs[0]]
        if not all(p in pf for p in rest_g):
            continue
        out.append((nf, f, ng, g, xs[0] + ">" + ys[0]))
    return out


def _same_name(param: str, out: str) -> bool:
    b = param.rstrip("_")
    return b == out or b.endswith("_" + out) or out.endswith("_" + b)


def check_vector_pair(mod: Any, nf: str, f: Any, ng: str, g: Any, link: str, n: int) -> str:
    import inspect
    from symplyphysics import Vector
    x_param, y_param = link.split(">")
    pf = inspect.signature(f).parameters
    env = {}
    lat = iter(values.LATTICE)
    point = {}
    for name, par in pf.items():
        ann = str(par.annotation)
        if "Vector" in ann:
            comps = sp.symbols(f"{name}0:{n}", real=True)
            env[name] = Vector(list(comps))
            for c in comps:
                point[c] = next(lat) / 7
        else:
            s = sp.Symbol(name, positive=True)
            env[name] = s
            point[s] = next(lat)
    fx = f(**env)
    kw = {p: env[p] for p in inspect.signature(g).parameters if p != x_param}
    kw[x_param] = fx
    gy = g(**kw)
    want = env[y_param]
    # numeric comparison at one generic point, module symbols and constants at generic values
    def num(e: Any) -> Any:
        e = sp.sympify(e)
        rep = dict(point)
        for s in e.free_symbols:
            if s not in rep:
                rep[s] = next(lat)
        for q in e.atoms(SymQuantity):
            rep[q] = sp.Float(str(values.raw_to_si(q.scale_factor, _dv(q)).real), 50)
        return sp.N(e.xreplace(rep), 50)

    if hasattr(want, "components"):
        if not hasattr(gy, "components"):
            return f"{ng}({nf}(...)) is not a vector"
        a = [num(c) for c in gy.components] + [0] * 3
        b = [num(c) for c in want.components] + [0] * 3
        for i in range(3):
            if abs(a[i] - b[i]) > 1e-25 * max(1, abs(b[i])):
                return f"{ng}({nf}(v)) != v in component {i}: {a[i]} vs {b[i]} (length {n})"
        return ""
    if abs(num(gy) - num(want)) > 1e-25 * max(1, abs(num(want))):
        return f"{ng}({nf}(...)) != {y_param}: {num(gy)} vs {num(want)}"
    return ""


def _work(modname: str) -> dict:
    res: dict[str, Any] = {"n": 0, "keys": [], "outcomes": {}, "violations": [], "undecided": [],
        "samples": []}
    bound = _BOUND
    try:
        mod = catalogue.load(modname)
    except Exception as ex:
        res["undecided"].append((modname, f"import failed: {type(ex).__name__}"))
        return res
    with open(ALLOW) as f:
        allow = json.load(f)
    for fname, fn in catalogue.functions(mod):
        sp_ = catalogue.spec(fn)
        if not (sp_["decorated"] or fname.startswith("calculate_")):
            continue
        fc = FunctionCase(modname, mod, fname, fn, allow)
        r = explore_function(fc, bound)
        for k in ("keys", "violations", "undecided"):
            res[k].extend(r[k])
        res["n"] += r["n"]
        for k, v in r["outcomes"].items():
            res["outcomes"][k] = res["outcomes"].get(k, 0) + v
        if not res["samples"]:
            res["samples"].extend(r["samples"])
    # vector wrappers against their law functions
    from . import c02vec
    for fname, fn in catalogue.functions(mod):
        try:
            r = c02vec.vector_function_cases(modname, mod, fname, fn, _BOUND > 1)
        except Exception as ex:  # pylint: disable=broad-except
            res["undecided"].append((f"{modname}.{fname}", f"vector-law driver: {type(ex).__name__}: "
                f"{short(ex, 80)}"))
            continue
        for k in ("keys", "violations", "undecided"):
            res[k].extend(r[k])
        res["n"] += r["n"]
        for k, v in r["outcomes"].items():
            res["outcomes"][k] = res["outcomes"].get(k, 0) + v
    # vector pairs
    try:
        pairs = vector_pairs(mod)
    except Exception:
        pairs = []
    for nf, f, ng, g, link in pairs:
        for n in (1, 2, 3):
            key = f"{modname}:{ng}({nf})#{n}"
            res["n"] += 1
            try:
                with time_limit(60):
                    v = check_vector_pair(mod, nf, f, ng, g, link, n)
            except CaseTimeout:
                res["undecided"].append((key, "timeout"))
                continue
            except Exception as ex:
                res["outcomes"]["pair-refused"] = res["outcomes"].get("pair-refused", 0) + 1
                continue
            res["keys"].append(key)
            res["outcomes"]["inverse-pair"] = res["outcomes"].get("inverse-pair", 0) + 1
            if v:
                res["violations"].append((key, v, {"module": modname, "pair": [nf, ng, link],
                    "n": n}))
    return res


_BOUND = 1


def main(run: Run) -> int:
    global _BOUND
    _BOUND = 2 if run.thorough else 1
    mods = rotate(catalogue.discover(), run.seed * 31)
    for r in pmap(_work, mods, chunksize=2):
        n = r.pop("n")
        run.evaluations += n
        r["n"] = 0
        run.absorb([r])
    # field laws (arguments are vector fields / parametrised curves): hand-built driver
    from . import c02fields
    fitems = c02fields.items(run.thorough)
    before = run.evaluations
    for r in pmap(c02fields.work, rotate(fitems, run.seed * 13), chunksize=1):
        n = r.pop("n")
        run.evaluations += n
        r["n"] = 0
        run.absorb([r])
    run.note(deviation_bound=_BOUND, field_law_modules=len(c02fields.MODULES),
        field_law_cases=run.evaluations - before,
        field_space="fields with <= 2 terms c*x^i*y^j*z^k*t^l of degree <= 2 in any component "
        "slots; Ampere: all pairs of single-term H and D; 3 curves / 3 surfaces; 4 unit spellings")
    return run.finish(
        rule="per calculation function: default tuple + every tuple within <= k deviations "
        "(magnitude x1e3, x1e-3, sign; spelling kilo, milli, cm-g-min) + all-parameters respelled; "
        "distinct = distinct (function, deviation set) keys whose call returned; vector laws: every "
        "ordered pair of forms solved for different unknowns x vector length 1..3; vector wrappers "
        "against their law function over all products of 7 direction patterns x optional-argument "
        "menus; field-law "
        "modules: every field of the polynomial menu against the law written in the module header",
        exhaustive=True,
        assumptions=["residual judged at 1e-6 relative (or a sign change within 1e-9 of the output)",
            "functions whose law contains derivatives / integrals / sums / applied functions are "
            "covered by the unit-metamorphic oracle only", "magnitudes outside the menu are not explored"])


def replay(case: dict) -> list[str]:
    if case.get("fields"):
        from . import c02fields
        return c02fields.replay(case)
    if case.get("vector_law"):
        from . import c02vec
        return c02vec.replay(case)
    mod = catalogue.load(case["module"])
    if "pair" in case:
        fs = dict(catalogue.functions(mod))
        nf, ng, link = case["pair"]
        v = check_vector_pair(mod, nf, fs[nf], ng, fs[ng], link, case["n"])
        return [v] if v else []
    with open(ALLOW) as f:
        allow = json.load(f)
    fn = dict(catalogue.functions(mod))[case["function"]]
    fc = FunctionCase(case["module"], mod, case["function"], fn, allow)
    if case.get("history"):
        r = explore_function(fc, 1)
        return [v for k, v, c in r["violations"] if c.get("history")]
    if case.get("style"):
        st0, r0, _ = fc.call(case["scales"], {})
        st1, r1, _ = fc.call(case["scales"], {}, case["style"])
        if st0 != "returned":
            return []
        if st1 != "returned":
            return [f"raises in the '{case['style']}' calling style"]
        return [] if struct_close(si_struct(r1), si_struct(r0), 1e-12) else [
            "result depends on the calling convention"]
    st, r, kw = fc.call(case["scales"], case["spellings"])
    if st != "returned":
        return []
    v = fc.residual(kw, r)
    out = [v] if v else []
    if case["spellings"]:
        st0, r0, _ = fc.call(case["scales"], {})
        if st0 == "returned" and not struct_close(si_struct(r), si_struct(r0), 1e-9):
            out.append("result depends on the unit spelling")
    return out

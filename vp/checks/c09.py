"""C09 - distinct symbols never alias; clones keep dimension and assumptions.

Model checking of creation histories on the real API: breadth-first search over all multisets of
creation / clone events up to a depth bound, canonical state = sorted descriptors of the objects
created (creations commute, nothing is ever destroyed); every state is re-created on the live
process (counters only grow, so later states run at ever higher counter values and cross the
digit boundaries 9/10, 99/100, 999/1000 ...) and all invariants are evaluated on it.
"""
from __future__ import annotations

import itertools
import re
from typing import Any, Optional

import sympy as sp

from .. import dims
from ..harness import Run, pmap, rotate, short

PROPERTY = "C09"
LEVEL = "model_checking"

NAMES = ("x", "y")
BASE_EVENTS = ([("S", n) for n in NAMES] + [("Sp", n) for n in NAMES] + [("F", n) for n in NAMES] +
    [("I", n) for n in NAMES] + [("Q1", ""), ("CS", "")] + [("Qn", n) for n in NAMES] +
    [("V", n) for n in NAMES] + [("S0", "")])
CLONE_KINDS = ("cs", "css", "csa", "cf", "ci")
DERIVE_KINDS = ("ctc", "cts", "ctx")  # coordinates_transform of an earlier system to cyl / sph / cart
INTERNAL = re.compile(r"(SYM|FUN|QTY|SYS|VEC)\d+")
PRIMES = [2, 3, 5, 7, 11, 13, 17]


def descriptor(ev: tuple, objs_desc: list) -> tuple:
    if ev[0] in CLONE_KINDS or ev[0] in DERIVE_KINDS:
        return (ev[0], objs_desc[ev[1]])
    return ev


def successors(state: tuple) -> list[tuple]:
    """state = tuple of events; clone events refer to the index of an earlier symbol-like event"""
    out = []
    for e in BASE_EVENTS:
        out.append(state + (e, ))
    for i, e in enumerate(state):
        kind = e[0]
        if kind in ("S", "Sp", "I", "S0") or kind in ("cs", "css", "csa", "ci"):
            for c in CLONE_KINDS:
                out.append(state + ((c, i), ))
        if kind == "CS" or kind in DERIVE_KINDS:
            for c in DERIVE_KINDS:
                out.append(state + ((c, i), ))
    return out


def canon(state: tuple) -> tuple:
    descs: list = []
    for e in state:
        descs.append(descriptor(e, descs))
    return tuple(sorted(descs, key=repr))


def all_states(depth: int) -> list[tuple]:
    seen = {(): ()}
    frontier = [()]
    for _ in range(depth):
        nxt = []
        for st in frontier:
            for s2 in successors(st):
                k = canon(s2)
                if k not in seen:
                    seen[k] = s2
                    nxt.append(s2)
        frontier = nxt
    return [v for v in seen.values() if v]


# ---- realisation and invariants ----------------------------------------------------------------


_THREAD_MODE = "main"


class _Worker:
    """a persistent second thread that executes creations handed to it, one at a time (no
    concurrency: the caller waits for each result)"""

    def __init__(self) -> None:
        import queue
        import threading
        self.q: Any = queue.Queue()
        self.r: Any = queue.Queue()
        self.t = threading.Thread(target=self._loop, daemon=True)
        self.t.start()

    def _loop(self) -> None:
        while True:
            fn = self.q.get()
            try:
                self.r.put((True, fn()))
            except BaseException as ex:  # pylint: disable=broad-except
                self.r.put((False, ex))

    def call(self, fn: Any) -> Any:
        self.q.put(fn)
        ok, v = self.r.get()
        if not ok:
            raise v
        return v


_WORKER: Any = None


def _create(i: int, fn: Any) -> Any:
    """run one creation event on the thread the current mode assigns to position i"""
    global _WORKER
    if _THREAD_MODE == "main":
        return fn()
    if _THREAD_MODE == "fresh":  # every event on a new thread of its own
        import threading
        box: list = []

        def run() -> None:
            try:
                box.append((True, fn()))
            except BaseException as ex:  # pylint: disable=broad-except
                box.append((False, ex))

        t = threading.Thread(target=run)
        t.start()
        t.join()
        ok, v = box[0]
        if not ok:
            raise v
        return v
    # "alternate": even positions on the main thread, odd ones on a persistent worker
    if i % 2 == 0:
        return fn()
    if _WORKER is None:
        _WORKER = _Worker()
    return _WORKER.call(fn)


def realise(state: tuple) -> list[dict]:
    objs: list[dict] = []
    for i, ev in enumerate(state):
        rec = _create(i, lambda ev=ev: _realise_one(ev, objs))
        objs.append(rec)
    return objs


def _realise_one(ev: tuple, objs: list[dict]) -> dict:
    from sympy.physics import units as U
    from symplyphysics import (Symbol, Function, IndexedSymbol, Quantity, CoordinateSystem,
        clone_as_symbol, clone_as_function)
    from symplyphysics.core.symbols.symbols import clone_as_indexed
    from symplyphysics.core.experimental.vectors import VectorSymbol
    t = sp.Symbol("t")
    if True:
        kind = ev[0]
        rec: dict[str, Any] = {"kind": kind, "named": True}
        if kind == "S":
            rec["obj"] = Symbol(ev[1], U.length, display_latex=f"\\hat{{{ev[1]}}}")
        elif kind == "Sp":
            rec["obj"] = Symbol(ev[1], U.length, positive=True)
        elif kind == "S0":
            rec["obj"] = Symbol(None, U.mass)
            rec["named"] = False
        elif kind == "F":
            rec["obj"] = Function(ev[1], [t], U.time)
        elif kind == "I":
            rec["obj"] = IndexedSymbol(ev[1], None, U.mass)
        elif kind == "Q1":
            rec["obj"] = Quantity(11 + len(objs))
            rec["named"] = False
        elif kind == "Qn":
            # distinct magnitudes: sympy's simplifier may express one quantity through another of
            # the same dimension (value-preserving); a mix-up would then show in the value
            rec["obj"] = Quantity((3 + len(objs)) * U.meter, display_symbol=ev[1])
        elif kind == "CS":
            rec["obj"] = CoordinateSystem()
            rec["named"] = False
        elif kind == "V":
            rec["obj"] = VectorSymbol(ev[1], U.force)
        elif kind in DERIVE_KINDS:
            from symplyphysics import coordinates_transform
            S = CoordinateSystem.System
            target = {"ctc": S.CYLINDRICAL, "cts": S.SPHERICAL, "ctx": S.CARTESIAN}[kind]
            rec["obj"] = coordinates_transform(objs[ev[1]]["obj"], target)
            rec["named"] = False
        else:
            src = objs[ev[1]]
            rec["src"] = src
            s = src["obj"]
            if kind == "cs":
                rec["obj"] = clone_as_symbol(s)
            elif kind == "css":
                rec["obj"] = clone_as_symbol(s, subscript="1")
            elif kind == "csa":
                rec["obj"] = clone_as_symbol(s, real=True)
            elif kind == "cf":
                rec["obj"] = clone_as_function(s, [t])
            else:
                rec["obj"] = clone_as_indexed(s)
            rec["named"] = src["named"]
    return rec


def term_of(rec: dict) -> Optional[Any]:
    """scalar term standing for the object in an expression"""
    o, k = rec["obj"], rec["kind"]
    t = sp.Symbol("t")
    if k in ("F", "cf"):
        return o(t)
    if k in ("I", "ci"):
        return o[o.index]
    if k == "CS" or k in DERIVE_KINDS:
        return o.coord_system.base_scalars()[0]
    if k == "V":
        return None
    return o


def _valued(e: Any) -> Any:
    """quantities are constants: compare at the level of values (scale factor x dimension tag)"""
    from sympy.physics.units import Quantity as SQ
    return e.xreplace({q: q.scale_factor * sp.Symbol("unit_" + str(q.dimension.name)) for q in
        e.atoms(SQ)})


def internal_name(rec: dict) -> str:
    o = rec["obj"]
    if rec["kind"] == "CS" or rec["kind"] in DERIVE_KINDS:
        return str(o.coord_system)
    return str(getattr(o, "name", o))


def check_state(state: tuple) -> list[str]:
    from symplyphysics import print_expression
    from symplyphysics.docs.printer_code import code_str
    from symplyphysics.docs.printer_latex import latex_str
    objs = realise(state)
    errs: list[str] = []
    # 1. pairwise distinct
    for (i, a), (j, b) in itertools.combinations(enumerate(objs), 2):
        oa, ob = a["obj"], b["obj"]
        csk = ("CS", ) + DERIVE_KINDS
        if a["kind"] in csk and b["kind"] in csk and oa.coord_system == ob.coord_system:
            errs.append(f"coordinate systems {i} and {j} compare equal")
        if oa is ob or (a["kind"] not in csk and b["kind"] not in csk and oa == ob):
            errs.append(f"objects {i} ({a['kind']}) and {j} ({b['kind']}) are equal")
        if internal_name(a) == internal_name(b):
            errs.append(f"objects {i} and {j} share the internal name {internal_name(a)}")
        ta, tb = term_of(a), term_of(b)
        if ta is not None and tb is not None and (ta == tb or hash(ta) == hash(tb)):
            errs.append(f"terms of objects {i} and {j} are equal or hash-equal")
    # 2. substitution / differentiation / solving isolation
    terms = [(i, term_of(r)) for i, r in enumerate(objs) if term_of(r) is not None]
    T = sp.Symbol("T_target")
    e = sum((PRIMES[n % len(PRIMES)] * tm for n, (_, tm) in enumerate(terms)), sp.S.Zero)
    for n, (i, tm) in enumerate(terms):
        c = PRIMES[n % len(PRIMES)]
        rest = e - c * tm
        try:
            got = e.subs(tm, 7)
            if sp.expand(_valued(got - (rest + 7 * c))) != 0:
                errs.append(f"subs of object {i} changed other terms: {short(got)}")
            if objs[i]["kind"] not in ("Q1", "Qn"):
                d = sp.diff(e, tm)
                if d != c:
                    errs.append(f"diff wrt object {i} gives {short(d)}, expected {c}")
                sol = sp.solve(e - T, tm)
                if len(sol) != 1 or sp.expand(_valued(sol[0] * c + rest - T)) != 0:
                    errs.append(f"solve for object {i} gives {short(sol)}")
        except Exception as ex:
            errs.append(f"isolation check of object {i} raised {type(ex).__name__}: {short(ex)}")
    # 3. clone contract
    for i, r in enumerate(objs):
        if "src" not in r:
            continue
        s, o, k = r["src"]["obj"], r["obj"], r["kind"]
        if dims.of_dimension(o.dimension) != dims.of_dimension(s.dimension) or str(o.dimension) != \
                str(s.dimension):
            errs.append(f"clone {i} ({k}) has dimension {o.dimension}, source {s.dimension}")
        want_code, want_latex = s.display_name, s.display_latex
        if k == "css":
            want_code, want_latex = f"{want_code}_1", f"{want_latex}_{{1}}"
        if o.display_name != want_code or o.display_latex != want_latex:
            errs.append(f"clone {i} ({k}) is displayed as {o.display_name!r} / {o.display_latex!r}, "
                f"expected {want_code!r} / {want_latex!r}")
        if k in ("cs", "css", "ci"):
            a_src = {a: v for a, v in s.assumptions0.items()}
            a_cl = {a: v for a, v in o.assumptions0.items()}
            if a_src != a_cl:
                errs.append(f"clone {i} ({k}) has assumptions {a_cl}, source {a_src}")
        if k == "csa" and o.is_real is not True:
            errs.append(f"clone {i} with real=True is not real")
    # 4. printing shows display names, never internal ones
    named = [(i, r) for i, r in enumerate(objs) if r["named"] and term_of(r) is not None]
    if named:
        ep = sum((PRIMES[n % len(PRIMES)] * term_of(r) for n, (_, r) in enumerate(named)),
            sp.S.Zero)
        for pname, fn in (("print_expression", print_expression), ("code_str", code_str),
            ("latex_str", latex_str)):
            try:
                text = fn(ep)
            except Exception as ex:
                errs.append(f"{pname} raised {type(ex).__name__}: {short(ex)}")
                continue
            if INTERNAL.search(text):
                errs.append(f"{pname} shows an internal name: {short(text, 120)}")
            for i, r in named:
                if r["kind"] == "CS" or r["kind"] in DERIVE_KINDS:
                    continue
                o = r["obj"]
                want = o.display_latex if pname == "latex_str" else o.display_name
                if pname == "latex_str" and r["kind"] in ("Qn", ):
                    want = o.display_name
                if want not in text:
                    errs.append(f"{pname} does not show the display name {want!r} of object {i}: "
                        f"{short(text, 120)}")
    # ... also when the object is printed bare (an indexed symbol without subscript, a function
    # without arguments) or inside a Python list, as interactive use does
    bare = [(i, r) for i, r in named if r["kind"] not in ("CS", "V") and r["kind"] not in DERIVE_KINDS]
    for i, r in bare:
        o = r["obj"]
        for pname, fn in (("print_expression", print_expression), ("code_str", code_str),
            ("latex_str", latex_str)):
            if pname == "print_expression" and r["kind"] in ("F", "cf"):
                # a function *class* is not an Expr, the declared parameter type of print_expression
                # (its printer says "works only for applied functions"): outside the property
                continue
            try:
                text = fn(o)
            except Exception as ex:  # pylint: disable=broad-except
                errs.append(f"{pname} of bare object {i} ({r['kind']}) raised {type(ex).__name__}: "
                    f"{short(ex)}")
                continue
            want = o.display_latex if pname == "latex_str" and r["kind"] != "Qn" else o.display_name
            if INTERNAL.search(text) or want not in text:
                errs.append(f"{pname} of bare object {i} ({r['kind']}) is {short(text, 80)!r}, display "
                    f"name {want!r}")
    if bare:
        try:
            text = print_expression([r["obj"] for _, r in bare if r["kind"] not in ("F", "cf")])
            if INTERNAL.search(text):
                errs.append(f"print_expression of a list shows an internal name: {short(text, 120)}")
        except Exception as ex:  # pylint: disable=broad-except
            errs.append(f"print_expression of a list raised {type(ex).__name__}: {short(ex)}")
    for i, r in enumerate(objs):
        if r["kind"] == "V":
            from symplyphysics.docs.printer_code import code_str as cs
            txt = cs(r["obj"])
            if INTERNAL.search(txt) or r["obj"].display_name not in txt:
                errs.append(f"code_str of vector symbol {i} is {txt!r}")
    return errs


# ---- clone contract over assumption sets ---------------------------------------------------------------

FACTS = ("positive", "negative", "nonnegative", "nonpositive", "real", "integer", "rational", "zero",
    "nonzero", "finite", "commutative", "even", "complex", "imaginary")


def assumption_sets() -> list[dict]:
    out: list[dict] = [{}]
    singles = [{f: v} for f in FACTS for v in (True, False)]
    out += singles
    for a, b in itertools.combinations(singles, 2):
        if set(a) & set(b):
            continue
        out.append({**a, **b})
    return out


def clone_contract_cases(chunk: list[dict]) -> list[tuple[str, str]]:
    from sympy.physics import units as U
    from symplyphysics import Symbol, IndexedSymbol, clone_as_symbol, clone_as_function
    from symplyphysics.core.symbols.symbols import clone_as_indexed
    out = []
    for asm in chunk:
        tag = ",".join(f"{k}={v}" for k, v in sorted(asm.items())) or "none"
        for kind, mk in (("Symbol", lambda: Symbol("w", U.energy, display_latex="\\omega_0", **asm)),
            ("Indexed", lambda: IndexedSymbol("w", None, U.energy, display_latex="\\omega_0", **asm))):
            try:
                src = mk()
            except Exception:
                out.append((f"clone-assumptions:{kind}:{tag}", ""))  # inconsistent set: refused by sympy
                continue
            want = dict(src.assumptions0)
            for cname, clone in (("clone_as_symbol", lambda: clone_as_symbol(src)),
                ("clone_as_symbol+subscript", lambda: clone_as_symbol(src, subscript="2")),
                ("clone_as_indexed", lambda: clone_as_indexed(src)),
                ("clone_of_clone", lambda: clone_as_symbol(clone_as_symbol(src)))):
                key = f"clone-assumptions:{kind}:{cname}:{tag}"
                try:
                    c = clone()
                except Exception as ex:
                    out.append((key, f"{cname} raised {type(ex).__name__}: {short(ex)}"))
                    continue
                got = dict(c.assumptions0)
                msg = ""
                if got != want:
                    diff = {k: (want.get(k), got.get(k)) for k in set(want) | set(got) if want.get(k)
                        != got.get(k)}
                    msg = f"{cname} of a {kind} with {asm or 'no assumptions'} changes assumptions (source, clone): {diff}"
                elif str(c.dimension) != str(src.dimension):
                    msg = f"{cname} changes the dimension to {c.dimension}"
                elif c == src:
                    msg = f"{cname} returned an object equal to its source"
                out.append((key, msg))
            # explicit assumptions replace, never merge silently into something inconsistent
            try:
                c = clone_as_symbol(src, real=True)
                ok = c.is_real is True and str(c.dimension) == str(src.dimension)
                out.append((f"clone-assumptions:{kind}:explicit:{tag}", "" if ok else
                    "clone_as_symbol(src, real=True) is not real or changed the dimension"))
            except Exception:
                out.append((f"clone-assumptions:{kind}:explicit:{tag}", ""))
            f = clone_as_function(src, [sp.Symbol("t")])
            ok = str(f.dimension) == str(src.dimension) and f.display_name == src.display_name and \
                f.display_latex == src.display_latex
            out.append((f"clone-assumptions:{kind}:function:{tag}", "" if ok else
                f"clone_as_function changed dimension or names: {f.dimension}, {f.display_name}"))
    return out


_CROSSED: dict[str, int] = {}


def _counter(prefix: str) -> int:
    """current value of a name counter, through the public accessor"""
    from symplyphysics.core.symbols import id_generator as G
    try:
        return int(G.last_id(prefix))
    except KeyError:
        return 0


def _work(chunk: list[tuple]) -> dict:
    from symplyphysics.core.symbols import id_generator as G
    res: dict[str, Any] = {"n": 0, "keys": [], "outcomes": {}, "violations": [], "samples": [],
        "states": 0, "transitions": 0, "traces": 0}
    global _THREAD_MODE
    for st in chunk:
        before = {p: _counter(p) for p in ("SYM", "FUN", "QTY", "SYS")}
        errs = check_state(st)
        if len(st) >= 2:
            # the same history with its creations spread over threads (one at a time, no races):
            # names must be unique across the whole process, not per thread
            for mode in ("fresh", "alternate"):
                _THREAD_MODE = mode
                try:
                    terrs = check_state(st)
                finally:
                    _THREAD_MODE = "main"
                res["n"] += 1
                res["traces"] += 1
                res["outcomes"][f"threads-{mode}-ok" if not terrs else f"threads-{mode}-bad"] = \
                    res["outcomes"].get(f"threads-{mode}-ok" if not terrs else f"threads-{mode}-bad",
                    0) + 1
                for e in terrs[:2]:
                    res["violations"].append((f"{canon(st)}|threads:{mode}|{e.split(':')[0][:60]}",
                        f"[creations on threads: {mode}] {e}", {"state": list(st), "threads": mode}))
        after = {p: _counter(p) for p in ("SYM", "FUN", "QTY", "SYS")}
        for p in before:
            if len(str(before[p])) != len(str(after[p])) or (before[p] == 0 and after[p] > 0):
                res["outcomes"][f"crossed-digit-boundary-{p}"] = res["outcomes"].get(
                    f"crossed-digit-boundary-{p}", 0) + 1
        key = repr(canon(st))
        res["n"] += 1
        res["keys"].append(key)
        res["states"] += 1
        res["transitions"] += len(st)
        res["traces"] += 1
        res["outcomes"]["ok" if not errs else "bad"] = res["outcomes"].get("ok" if not errs else
            "bad", 0) + 1
        for e in errs[:3]:
            res["violations"].append((f"{canon(st)}|{e.split(':')[0][:60]}", e, {"state": list(st)}))
    if chunk:
        res["samples"].append({"history": [list(e) for e in chunk[-1]]})
    return res


def _bump_each(offset: int) -> None:
    """bring every name counter to at least `offset`, each through its own public constructor"""
    from symplyphysics import Symbol, Function, Quantity, CoordinateSystem
    from symplyphysics.core.symbols import id_generator as G
    for prefix, mk in (("SYM", Symbol), ("FUN", Function), ("QTY", lambda: Quantity(1))):
        while _counter(prefix) < offset:
            mk()
    while _counter("SYS") < min(offset, 96):  # coordinate systems are slow to create
        CoordinateSystem()


def _work_with_offset(item: tuple) -> dict:
    offset, chunk = item
    if offset == "assumptions":
        cases = clone_contract_cases(chunk)
        res: dict[str, Any] = {"n": len(cases), "keys": [k for k, _ in cases], "outcomes": {},
            "violations": [], "samples": [cases[len(cases) // 2][0]] if cases else [], "states":
            len(cases), "transitions": len(cases), "traces": len(chunk)}
        for k, v in cases:
            res["outcomes"]["clone-ok" if not v else "clone-bad"] = res["outcomes"].get("clone-ok" if
                not v else "clone-bad", 0) + 1
            if v:
                res["violations"].append((k, v, {"assumptions": k}))
        return res
    _bump_each(offset)
    return _work(chunk)


def main(run: Run) -> int:
    depth = 4 if run.thorough else 3
    states = all_states(depth)
    states = rotate(states, run.seed * 101)
    # workers start from different counter levels so that digit boundaries are crossed by small
    # states: every counter at 0, 6, 96, 996, 9996 (SYM starts at 243)
    offsets = [0, 6, 96, 996, 9996]
    size = max(20, len(states) // 64)
    chunks = [states[i:i + size] for i in range(0, len(states), size)]
    items: list[tuple] = [(offsets[i % len(offsets)], c) for i, c in enumerate(chunks)]
    asets = assumption_sets()
    items += [("assumptions", asets[i:i + 40]) for i in range(0, len(asets), 40)]
    for r in pmap(_work_with_offset, items):
        n = r.pop("n")
        run.evaluations += n
        r["n"] = 0
        run.absorb([r])
    run.note(depth=depth, canonical_states=len(states), start_counter_levels=offsets)
    return run.finish(
        rule=f"all multisets of <= {depth} creation / clone events over "
        f"{len(BASE_EVENTS)} base events and {len(CLONE_KINDS)} clone kinds (display names forced "
        "to collide on 'x'/'y'); canonical state = sorted object descriptors; every state re-created "
        "on the live process and all invariants evaluated, also with the creations spread over "
        "threads (each on a fresh thread; alternating between the main thread and a persistent "
        "worker; always one at a time); plus the clone contract over all single "
        "and pairwise assumption sets (14 facts x True/False) for Symbol and IndexedSymbol sources",
        exhaustive=True,
        assumptions=["creations commute and nothing is destroyed, so a state is the multiset of "
            "object descriptors", "printing = print_expression, code_str, latex_str; anonymous "
            "objects (no display name given) take part in the non-aliasing invariants only"])


def replay(case: dict) -> list[str]:
    if "assumptions" in case:
        return [f"{k}: {v}" for k, v in clone_contract_cases(assumption_sets()) if v and k ==
            case["assumptions"]]
    global _THREAD_MODE
    st = tuple(tuple(e) for e in case["state"])
    _THREAD_MODE = case.get("threads", "main")
    try:
        return check_state(st)
    finally:
        _THREAD_MODE = "main"

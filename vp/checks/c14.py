"""C14 - coordinate-free vector algebra simplification preserves value in R^3.

Explorer: all product-structure shapes with <= n product nodes (dot / cross / mixed / norm, scalar
times vector) over plain role leaves in every role pattern (repeated arguments included), then
every single (thorough: double) decoration of a leaf by a sign / number / scalar multiple / sum;
each tree x all k! assignments of the created vector symbols to its roles (the library orders
operands by id(), so this covers every relative address order) x {auto-evaluated, evaluate=False
then doit()}.  Oracle: component expansion in R^3, exact polynomial normal form (numeric at 30
digits where norms occur).  Derivative trees over vector functions of a scalar parameter.
"""
from __future__ import annotations

import itertools
from typing import Any, Iterator

import sympy as sp

from .. import vecref as R
from ..harness import Run, pmap, rotate, short, time_limit, CaseTimeout

PROPERTY = "C14"
LEVEL = "exploration"

ROLES = "abcd"

# ---- tree descriptions --------------------------------------------------------------------------
# vector trees: ("r", i) | ("neg", V) | ("num", k, V) | ("smul", S, V) | ("sdiv", S, V) | ("add", V, V) | ("sub", V, V)
#               | ("cross", V, V) | ("zero",)
# scalar trees: ("dot", V, V) | ("mixed", V, V, V) | ("norm", V) | ("p",) | ("q",)

LEAF = "."


def shapes(n: int) -> list[Any]:
    """product structures with exactly n product nodes, leaves marked '.'"""
    C = ("cross", LEAF, LEAF)
    S1 = [("dot", LEAF, LEAF), ("norm", LEAF), ("mixed", LEAF, LEAF, LEAF)]
    if n == 1:
        return [("dot", LEAF, LEAF), ("cross", LEAF, LEAF), ("mixed", LEAF, LEAF, LEAF), ("norm",
            LEAF)]
    if n == 2:
        out = [("dot", C, LEAF), ("dot", LEAF, C), ("cross", C, LEAF), ("cross", LEAF, C), ("mixed",
            C, LEAF, LEAF), ("mixed", LEAF, C, LEAF), ("mixed", LEAF, LEAF, C), ("norm", C)]
        for s in S1[:2]:
            X = ("smul", s, LEAF)
            out += [("dot", X, LEAF), ("cross", X, LEAF), ("cross", LEAF, X), ("norm", X)]
        return out
    if n == 3:
        CL, CR = ("cross", C, LEAF), ("cross", LEAF, C)
        out = [("dot", C, C), ("cross", C, C), ("mixed", C, C, LEAF), ("mixed", C, LEAF, C),
            ("mixed", LEAF, C, C), ("norm", CL), ("norm", CR)]
        for cc in (CL, CR):
            out += [("dot", cc, LEAF), ("dot", LEAF, cc), ("cross", cc, LEAF), ("cross", LEAF, cc),
                ("mixed", cc, LEAF, LEAF), ("mixed", LEAF, LEAF, cc)]
        X = ("smul", ("dot", LEAF, LEAF), C)
        out += [("dot", X, LEAF), ("cross", LEAF, X)]
        return out
    raise ValueError(n)


def count_leaves(t: Any) -> int:
    if t == LEAF:
        return 1
    if isinstance(t, tuple):
        return sum(count_leaves(x) for x in t[1:])
    return 0


def growth_strings(n: int, maxblocks: int = 4) -> Iterator[tuple]:
    """restricted growth strings: role patterns in order of first appearance"""

    def rec(prefix: list, m: int) -> Iterator[tuple]:
        if len(prefix) == n:
            yield tuple(prefix)
            return
        for v in range(min(m + 1, maxblocks - 1) + 1):
            if v <= m + 1 and v < maxblocks:
                yield from rec(prefix + [v], max(m, v))

    if n == 0:
        yield ()
    else:
        yield from rec([0], 0)


def fill(t: Any, leaves: Iterator[Any]) -> Any:
    if t == LEAF:
        return next(leaves)
    if isinstance(t, tuple):
        return (t[0], ) + tuple(fill(x, leaves) for x in t[1:])
    return t


def decorations(nroles: int) -> list[Any]:
    """functions leaf -> decorated operand; other roles range over existing ones and a fresh one"""
    out: list[Any] = [lambda r: ("neg", r), lambda r: ("num", 2, r), lambda r: ("smul", ("p", ), r),
        lambda r: ("num", -3, ("smul", ("q", ), r))]
    for j in range(min(nroles + 1, 4)):
        out.append(lambda r, j=j: ("add", r, ("smul", ("q", ), ("r", j))))
        out.append(lambda r, j=j: ("sub", ("smul", ("p", ), r), ("r", j)))
    out.append(lambda r: ("add", r, ("zero", )))
    # very small floating-point coefficients (physical constants in SI units)
    out.append(lambda r: ("num", sp.Float("1.602e-19"), r))
    out.append(lambda r: ("add", r, ("num", sp.Float("1e-19"), ("r", min(nroles, 3)))))
    # division by a scalar (which may be negative): alone, and sums over one / two divisors
    out.append(lambda r: ("sdiv", ("q", ), r))
    for j in sorted({0, min(nroles, 3)}):
        out.append(lambda r, j=j: ("add", ("sdiv", ("q", ), r), ("sdiv", ("q", ), ("r", j))))
        out.append(lambda r, j=j: ("add", ("sdiv", ("p", ), r), ("sdiv", ("q", ), ("r", j))))
    return out


def leaf_paths(t: Any, path: tuple = ()) -> Iterator[tuple]:
    if isinstance(t, tuple) and t[0] == "r":
        yield path
        return
    if isinstance(t, tuple):
        for i, x in enumerate(t[1:], 1):
            yield from leaf_paths(x, path + (i, ))


def replace_at(t: Any, path: tuple, fn: Any) -> Any:
    if not path:
        return fn(t)
    i = path[0]
    return t[:i] + (replace_at(t[i], path[1:], fn), ) + t[i + 1:]


def nroles(t: Any) -> int:
    m = -1
    if isinstance(t, tuple):
        if t[0] == "r":
            return t[1] + 1
        for x in t[1:]:
            m = max(m, nroles(x) - 1)
    return m + 1


def space(thorough: bool) -> list[Any]:
    base: list[Any] = []
    for n in (1, 2, 3):
        for sh in shapes(n):
            k = count_leaves(sh)
            for pat in growth_strings(k):
                base.append((n, fill(sh, iter([("r", i) for i in pat]))))
    trees = [t for _, t in base]
    dec_levels = (1, 2, 3) if thorough else (1, 2)
    for n, t in base:
        if n not in dec_levels:
            continue
        if not thorough and n == 2 and any(isinstance(x, tuple) and x[0] == "smul" for x in t[1:]):
            continue
        k = nroles(t)
        decs = decorations(k)
        paths = list(leaf_paths(t))
        for p in paths:
            for d in decs:
                trees.append(replace_at(t, p, d))
        if thorough and n <= 2:
            for p1, p2 in itertools.combinations(paths, 2):
                for d1, d2 in itertools.product(decs[:6], repeat=2):
                    trees.append(replace_at(replace_at(t, p1, d1), p2, d2))
    # de-duplicate
    seen = set()
    out = []
    for t in trees:
        if t not in seen:
            seen.add(t)
            out.append(t)
    return out


# ---- the two evaluators ----------------------------------------------------------------------------

_SYMS: list = []
_SAME: list = []  # four distinct vector symbols with one and the same display name
_COMP: dict = {}
_P = sp.Symbol("p", real=True)
_Q = sp.Symbol("q", real=True)


def _setup() -> None:
    if _SYMS:
        return
    from symplyphysics.core.experimental.vectors import VectorSymbol
    for n in ROLES:
        v = VectorSymbol(n)
        _SYMS.append(v)
        _COMP[v] = sp.symbols(f"{n}1:4", real=True)
    for n in ROLES:
        v = VectorSymbol("F")  # display names collide, the objects are distinct
        _SAME.append(v)
        _COMP[v] = sp.symbols(f"F{n}1:4", real=True)


_POOL: list = []


def ref_eval(t: Any, assign: tuple) -> Any:
    k = t[0]
    if k == "r":
        return _COMP[(_POOL or _SYMS)[assign[t[1]]]]
    if k == "zero":
        return (sp.S.Zero, ) * 3
    if k == "neg":
        return R.scale(-1, ref_eval(t[1], assign))
    if k == "num":
        return R.scale(t[1], ref_eval(t[2], assign))
    if k == "smul":
        return R.scale(ref_eval(t[1], assign), ref_eval(t[2], assign))
    if k == "sdiv":
        return R.scale(1 / ref_eval(t[1], assign), ref_eval(t[2], assign))
    if k == "add":
        return R.add(ref_eval(t[1], assign), ref_eval(t[2], assign))
    if k == "sub":
        return R.sub(ref_eval(t[1], assign), ref_eval(t[2], assign))
    if k == "cross":
        return R.cross(ref_eval(t[1], assign), ref_eval(t[2], assign))
    if k == "dot":
        return R.dot(ref_eval(t[1], assign), ref_eval(t[2], assign))
    if k == "mixed":
        return R.dot(ref_eval(t[1], assign), R.cross(ref_eval(t[2], assign), ref_eval(t[3],
            assign)))
    if k == "norm":
        return sp.sqrt(R.norm2(ref_eval(t[1], assign)))
    if k == "p":
        return _P
    if k == "q":
        return _Q
    raise ValueError(t)


def build(t: Any, assign: tuple, evaluate: bool) -> Any:
    from symplyphysics.core.experimental.vectors import (VectorDot, VectorCross,
        VectorMixedProduct, VectorNorm)
    k = t[0]
    kw = {} if evaluate else {"evaluate": False}
    if k == "r":
        return (_POOL or _SYMS)[assign[t[1]]]
    if k == "zero":
        return sp.S.Zero
    if k == "neg":
        return -build(t[1], assign, evaluate)
    if k == "num":
        return t[1] * build(t[2], assign, evaluate)
    if k == "smul":
        return build(t[1], assign, evaluate) * build(t[2], assign, evaluate)
    if k == "sdiv":
        return build(t[2], assign, evaluate) / build(t[1], assign, evaluate)
    if k == "add":
        return build(t[1], assign, evaluate) + build(t[2], assign, evaluate)
    if k == "sub":
        return build(t[1], assign, evaluate) - build(t[2], assign, evaluate)
    if k == "cross":
        return VectorCross(build(t[1], assign, evaluate), build(t[2], assign, evaluate), **kw)
    if k == "dot":
        return VectorDot(build(t[1], assign, evaluate), build(t[2], assign, evaluate), **kw)
    if k == "mixed":
        return VectorMixedProduct(*(build(x, assign, evaluate) for x in t[1:]), **kw)
    if k == "norm":
        return VectorNorm(build(t[1], assign, evaluate), **kw)
    if k == "p":
        return _P
    if k == "q":
        return _Q
    raise ValueError(t)


class NotVector(Exception):
    pass


def lib_eval(e: Any, comp: dict) -> Any:
    """interpret a library expression: returns a 3-tuple for vectors, an Expr for scalars"""
    from symplyphysics.core.experimental.vectors import (VectorDot, VectorCross,
        VectorMixedProduct, VectorNorm, VectorDerivative, is_vector_expr)
    e = sp.sympify(e)
    if e in comp:
        return comp[e]
    if isinstance(e, VectorCross):
        return R.cross(_vec(e.args[0], comp), _vec(e.args[1], comp))
    if isinstance(e, VectorDot):
        return R.dot(_vec(e.args[0], comp), _vec(e.args[1], comp))
    if isinstance(e, VectorMixedProduct):
        a, b, c = (_vec(x, comp) for x in e.args)
        return R.dot(a, R.cross(b, c))
    if isinstance(e, VectorNorm):
        return sp.sqrt(R.norm2(_vec(e.args[0], comp)))
    if isinstance(e, VectorDerivative):
        base = lib_eval(e.args[0], comp)
        if not isinstance(base, tuple):
            raise NotVector(e)
        return tuple(sp.Derivative(x, *e.args[1:]).doit() for x in base)
    if isinstance(e, sp.Add):
        parts = [lib_eval(a, comp) for a in e.args]
        if any(isinstance(p, tuple) for p in parts):
            tot = (sp.S.Zero, ) * 3
            for p in parts:
                if not isinstance(p, tuple):
                    if p == 0:
                        continue
                    raise NotVector(f"scalar {p} added to a vector")
                tot = R.add(tot, p)
            return tot
        return sp.Add(*parts)
    if isinstance(e, sp.Mul):
        parts = [lib_eval(a, comp) for a in e.args]
        vecs = [p for p in parts if isinstance(p, tuple)]
        scal = sp.Mul(*[p for p in parts if not isinstance(p, tuple)])
        if len(vecs) > 1:
            raise NotVector("product of two vectors")
        return R.scale(scal, vecs[0]) if vecs else scal
    if isinstance(e, sp.Pow):
        b = lib_eval(e.base, comp)
        if isinstance(b, tuple):
            raise NotVector("power of a vector")
        return b**lib_eval(e.exp, comp)
    if isinstance(e, (sp.Abs, sp.sign)):
        return e.func(lib_eval(e.args[0], comp))
    if isinstance(e, sp.Derivative):
        inner = lib_eval(e.args[0], comp)
        if isinstance(inner, tuple):
            return tuple(sp.Derivative(x, *e.args[1:]).doit() for x in inner)
        return sp.Derivative(inner, *e.args[1:]).doit()
    if not e.args or isinstance(e, sp.core.function.AppliedUndef):
        return e
    return e.func(*[lib_eval(a, comp) for a in e.args])


def _vec(e: Any, comp: dict) -> tuple:
    v = lib_eval(e, comp)
    if isinstance(v, tuple):
        return v
    if v == 0:
        return (sp.S.Zero, ) * 3
    raise NotVector(f"{e} is not a vector")


POINTS = [{}, {}]


def same(a: Any, b: Any) -> bool:
    if isinstance(a, tuple) != isinstance(b, tuple):
        if isinstance(b, tuple) and a == 0:
            a = (sp.S.Zero, ) * 3
        elif isinstance(a, tuple) and b == 0:
            b = (sp.S.Zero, ) * 3
        else:
            return False
    if isinstance(a, tuple):
        return all(same(x, y) for x, y in zip(a, b))
    d = sp.sympify(a) - sp.sympify(b)
    if d == 0:
        return True
    if not d.has(sp.Pow, sp.Abs, sp.sign) or all(p.exp.is_Integer for p in d.atoms(sp.Pow)) and not \
            d.has(sp.Abs, sp.sign):
        return sp.expand(d) == 0
    # norms present: numeric at generic points (30 digits)
    syms = sorted(d.free_symbols, key=str)
    for shift in (0, 5, 11):
        vals = {s: sp.Rational(3 + 7 * ((i + shift) % 13), 5 + ((i * 3 + shift) % 7)) * (-1)**(i +
            shift) for i, s in enumerate(syms)}
        tol = sp.Float("1e-25")
        dd = d
        if d.atoms(sp.Float):
            # floating-point coefficients: taken as the exact rationals they are (a + 1e-19*b must
            # not lose the small term in the reference), and the library's own 15-digit products
            # are allowed their rounding, relative to the size of the value
            exact = {f: sp.Rational(f) for f in d.atoms(sp.Float)}
            dd = d.xreplace(exact)
            tol = sp.Float("1e-11") * abs(sp.N(sp.sympify(a).xreplace(exact).xreplace(vals), 40))
        if abs(sp.N(dd.xreplace(vals), 40)) > tol:
            return False
    return True


def check_tree(t: Any, same_names: bool = False) -> list[tuple[str, str, dict]]:
    """all role assignments x construction modes for one tree"""
    global _POOL
    _setup()
    _POOL = _SAME if same_names else []
    try:
        return _check_tree(t, same_names)
    finally:
        _POOL = []


def _check_tree(t: Any, same_names: bool) -> list[tuple[str, str, dict]]:
    k = nroles(t)
    out = []
    for assign in itertools.permutations(range(4), k) if k else [()]:
        # only assignments using the first k created symbols in every order, plus (thorough-like)
        # the choice of which k of the 4 symbols take part does not change relative order classes
        if k and sorted(assign) != list(range(k)):
            continue
        want = ref_eval(t, assign)
        for mode in ("auto", "doit"):
            tag = f"{t}|{assign}|{mode}" + ("|same-display-names" if same_names else "")
            try:
                with time_limit(20):
                    e = build(t, assign, evaluate=(mode == "auto"))
                    if mode == "doit":
                        e = e.doit()
                    got = lib_eval(e, _COMP)
                    ok = same(got, want)
            except CaseTimeout:
                out.append((tag, "does not terminate within 20 s", {"tree": t, "assign": assign,
                    "mode": mode, "same": same_names}))
                continue
            except RecursionError:
                out.append((tag, "RecursionError", {"tree": t, "assign": assign, "mode": mode}))
                continue
            except NotVector as ex:
                out.append((tag, f"result is ill-typed: {short(ex)}", {"tree": t, "assign": assign,
                    "mode": mode}))
                continue
            out.append((tag, "" if ok else f"value changed: library gives {short(e, 160)}",
                {"tree": t, "assign": assign, "mode": mode, "same": same_names}))
    return out


# ---- derivatives ---------------------------------------------------------------------------------------


def derivative_cases() -> list[tuple[str, str, dict]]:
    from symplyphysics.core.experimental.vectors import (VectorFunction, VectorDot, VectorCross,
        VectorMixedProduct, VectorNorm, VectorSymbol)
    out: list[tuple[str, str, dict]] = []
    # how the vector functions are declared must not matter: with the symbol they are applied to,
    # with another formal symbol, by the number of arguments only, or not at all
    for style in ("declared-t", "declared-other", "nargs", "undeclared"):
        out += _derivative_cases(style)
    out += multi_variable_cases()
    return out


def multi_variable_cases() -> list[tuple[str, str, dict]]:
    """partial derivatives of vector functions of two scalars, every order of up to three
    differentiations (x,y / y,x / x,y,x / x,x,y / ...), through .diff, vector_diff and an
    unevaluated VectorDerivative evaluated afterwards"""
    from symplyphysics.core.experimental.vectors import (VectorFunction, VectorDot, VectorCross,
        VectorDerivative, vector_diff, VectorSymbol)
    xx, yy = sp.Symbol("x", real=True), sp.Symbol("y", real=True)
    fs = [VectorFunction(n, [xx, yy]) for n in "uv"]
    comp = {}
    for n, f in zip("uv", fs):
        comp[f(xx, yy)] = tuple(sp.Function(f"{n}{i}")(xx, yy) for i in (1, 2, 3))
    const = VectorSymbol("k")
    comp[const] = sp.symbols("k1:4", real=True)
    u, v = (f(xx, yy) for f in fs)
    g = sp.Function("g")(xx, yy)
    exprs = {"u": lambda: u, "x^2*y*k+u": lambda: xx**2 * yy * const + u, "g*u": lambda: g * u,
        "dot(u,v)": lambda: VectorDot(u, v), "cross(u,v)": lambda: VectorCross(u, v),
        "cross(u,k)": lambda: VectorCross(u, const)}
    orders = [seq for n in (2, 3) for seq in itertools.product((xx, yy), repeat=n)]
    out = []
    for name, mk in exprs.items():
        for seq in orders:
            for via in ("diff", "vector_diff", "VectorDerivative.doit"):
                tag = f"d/d{''.join(str(s_) for s_ in seq)} {name} [{via}]"
                case = {"multi": tag}
                try:
                    with time_limit(30):
                        e = mk()
                        base = lib_eval(e, comp)
                        if via == "diff":
                            d = e.diff(*seq)
                        elif isinstance(base, tuple):
                            d = vector_diff(e, *seq) if via == "vector_diff" else VectorDerivative(e,
                                *seq).doit()
                        else:
                            continue  # the vector entry points are for vector-valued expressions
                        got = lib_eval(d, comp)
                        want: Any = tuple(sp.diff(c, *seq) for c in base) if isinstance(base, tuple) \
                            else sp.diff(base, *seq)
                        ok = same_fn(got, want)
                except CaseTimeout:
                    out.append((tag, "differentiation does not terminate within 30 s", case))
                    continue
                except (RecursionError, NotVector) as ex:
                    out.append((tag, f"differentiation fails: {type(ex).__name__}", case))
                    continue
                except NotImplementedError:
                    out.append((tag, "", case))
                    continue
                out.append((tag, "" if ok else f"derivative {short(d, 160)} differs from the "
                    f"component-wise derivative", case))
    return out


def _derivative_cases(style: str) -> list[tuple[str, str, dict]]:
    from symplyphysics.core.experimental.vectors import (VectorFunction, VectorDot, VectorCross,
        VectorMixedProduct, VectorNorm, VectorSymbol)
    tt = sp.Symbol("t", real=True)
    formal = sp.Symbol("s", real=True)
    if style == "declared-t":
        fs = [VectorFunction(n, [tt]) for n in "uvw"]
    elif style == "declared-other":
        fs = [VectorFunction(n, [formal]) for n in "uvw"]
    elif style == "nargs":
        fs = [VectorFunction(n, nargs=1) for n in "uvw"]
    else:
        fs = [VectorFunction(n) for n in "uvw"]
    comp = {}
    for n, f in zip("uvw", fs):
        comp[f(tt)] = tuple(sp.Function(f"{n}{i}")(tt) for i in (1, 2, 3))
    const = VectorSymbol("k")
    comp[const] = sp.symbols("k1:4", real=True)
    g = sp.Function("g")(tt)
    u, v, w = (f(tt) for f in fs)
    exprs = {
        "u": lambda: u, "2u+v": lambda: 2 * u + v, "g*u": lambda: g * u, "t^2*u": lambda: tt**2 * u,
        "dot(u,v)": lambda: VectorDot(u, v), "dot(u,u)": lambda: VectorDot(u, u),
        "dot(u,k)": lambda: VectorDot(u, const), "cross(u,v)": lambda: VectorCross(u, v),
        "cross(u,k)": lambda: VectorCross(u, const), "cross(k,u)": lambda: VectorCross(const, u),
        "mixed(u,v,w)": lambda: VectorMixedProduct(u, v, w),
        "mixed(u,v,k)": lambda: VectorMixedProduct(u, v, const),
        "norm(u)": lambda: VectorNorm(u), "norm(cross(u,v))": lambda: VectorNorm(VectorCross(u, v)),
        "dot(u,cross(v,w))": lambda: VectorDot(u, VectorCross(v, w)),
        "cross(u,cross(v,w))": lambda: VectorCross(u, VectorCross(v, w)),
        "dot(g*u,v+w)": lambda: VectorDot(g * u, v + w),
        "cross(u+v,u-v)": lambda: VectorCross(u + v, u - v),
        "dot(u,v)*w": lambda: VectorDot(u, v) * w,
        "norm(u)*v": lambda: VectorNorm(u) * v,
    }
    out = []
    # orders 3 and 4 at once (a product node may have its own n-th derivative rule) for the
    # expressions without norms, whose high derivatives stay small
    high = ("u", "g*u", "dot(u,v)", "dot(u,u)", "dot(u,k)", "cross(u,v)", "cross(u,k)",
        "mixed(u,v,w)", "dot(g*u,v+w)", "dot(u,v)*w", "cross(u+v,u-v)")
    for name, mk in exprs.items():
        for order in ((1, 2, 3, 4) if name in high else (1, 2)):
            tag = f"d{order}/dt{order} {name} [{style}]"
            case = {"derivative": name, "order": order, "style": style}
            try:
                with time_limit(30):
                    e = mk()
                    d = e.diff(tt, order)
                    got = lib_eval(d, comp)
                    base = lib_eval(e, comp)
                    if isinstance(base, tuple):
                        want: Any = tuple(sp.diff(x, tt, order) for x in base)
                    else:
                        want = sp.diff(base, tt, order)
                    ok = same_fn(got, want)
                    if ok and order >= 3:
                        # the same order asked for as a list of variables and through Derivative
                        for alt in (e.diff(*([tt] * order)), sp.Derivative(e, (tt, order)).doit()):
                            if not same_fn(lib_eval(alt, comp), want):
                                ok = False
                                d = alt
            except CaseTimeout:
                out.append((tag, "differentiation does not terminate within 30 s", case))
                continue
            except RecursionError:
                out.append((tag, "differentiation ends in RecursionError", case))
                continue
            except NotImplementedError as ex:
                out.append((tag, "", case))  # documented limitation, not reached by these trees
                continue
            except NotVector as ex:
                out.append((tag, f"derivative is ill-typed: {short(ex)}", case))
                continue
            out.append((tag, "" if ok else f"derivative {short(d, 160)} differs from the "
                f"component-wise derivative", case))
    return out


def same_fn(a: Any, b: Any) -> bool:
    if isinstance(a, tuple) != isinstance(b, tuple):
        return False
    if isinstance(a, tuple):
        return all(same_fn(x, y) for x, y in zip(a, b))
    d = sp.sympify(a) - sp.sympify(b)
    if sp.expand(d) == 0:
        return True
    # functions and their derivatives as independent generic numbers
    atoms = sorted(d.atoms(sp.Derivative, sp.core.function.AppliedUndef, sp.Symbol), key=str)
    for shift in (0, 4):
        rep = {a_: sp.Rational(5 + 3 * ((i + shift) % 11), 4 + ((i + shift) % 5)) for i, a_ in
            enumerate(atoms)}
        dd = d
        for a_ in sorted(atoms, key=lambda z: -len(str(z))):
            dd = dd.xreplace({a_: rep[a_]})
        if abs(sp.N(dd, 40)) > sp.Float("1e-25"):
            return False
    return True


def _work(chunk: Any) -> dict:
    res: dict[str, Any] = {"n": 0, "keys": [], "outcomes": {}, "violations": [], "samples": []}
    if chunk == "derivatives":
        _setup()
        cases = derivative_cases()
    else:
        cases = []
        for t in chunk:
            cases.extend(check_tree(t))
            if nroles(t) >= 2:
                cases.extend(check_tree(t, same_names=True))
            res["keys"].append(repr(t))
    for tag, v, case in cases:
        res["n"] += 1
        if chunk == "derivatives":
            res["keys"].append(tag)
        res["outcomes"]["same" if not v else "differs"] = res["outcomes"].get("same" if not v else
            "differs", 0) + 1
        if v:
            res["violations"].append((tag, v, case))
    if cases:
        res["samples"].append(cases[len(cases) // 2][0])
    return res


def main(run: Run) -> int:
    trees = rotate(space(run.thorough), run.seed * 13)
    chunks: list[Any] = [trees[i:i + 40] for i in range(0, len(trees), 40)]
    chunks.append("derivatives")
    for r in pmap(_work, chunks):
        n = r.pop("n")
        run.evaluations += n
        r["n"] = 0
        run.absorb([r])
    run.note(trees=len(trees), bound="<= 3 product nodes; decorations on <= " + ("3" if run.thorough
        else "2") + "-product trees" + (", two decorations on <= 2-product trees" if run.thorough
        else ""))
    return run.finish(
        rule="all product-structure shapes with <= 3 product nodes x all role patterns (restricted "
        "growth strings, <= 4 roles) + every single decoration of a leaf; each tree x all k! role "
        "assignments x {auto-evaluated, evaluate=False + doit()} x {distinct display names, one shared "
        "display name}; distinct = distinct trees (plus "
        "derivative cases); evaluations = (tree, assignment, mode) triples",
        exhaustive=True,
        assumptions=["component expansion in R^3 with exact polynomial normal form; expressions with "
            "norms compared at 3 generic points with 40 digits", "the library's operand order depends "
            "on id() only through the relative order of the symbols, all of which are enumerated"])


def replay(case: dict) -> list[str]:
    _setup()
    if "derivative" in case:
        return [f"{k}: {v}" for k, v, c in derivative_cases() if v and c == case]

    def tup(x: Any) -> Any:
        return tuple(tup(i) for i in x) if isinstance(x, list) else x

    t = tup(case["tree"])
    return [f"{k}: {v}" for k, v, c in check_tree(t, bool(case.get("same"))) if v and tuple(
        c["assign"]) == tuple(case["assign"]) and c["mode"] == case["mode"]]

"""C05 - Quantity construction computes the SI value and dimension, or refuses.

Explorer: all expression trees with <= n internal nodes over a leaf alphabet (numbers, absorbing
values, units, prefixes, quantities, a free symbol, an unevaluated derivative), built through the
ordinary sympy constructors.  Oracle: a reference walker over the tree *as received by the
library* (after sympy's own canonicalisation) computing exact SI value and exponent-vector
dimension, and the refusal predicate worded in the property.
"""
from __future__ import annotations

import itertools
from fractions import Fraction
from typing import Any, Iterator

import sympy as sp
from sympy.physics import units as U
from sympy.physics.units import Quantity as SymQuantity
from sympy.physics.units.prefixes import Prefix, kilo, milli
from sympy.functions.elementary.miscellaneous import MinMaxBase

from .. import dims, values
from ..harness import Run, pmap, rotate, time_limit, CaseTimeout, short

PROPERTY = "C05"
LEVEL = "exploration"


class Refuse(Exception):
    pass


class DontCare(Exception):
    pass


# ---- alphabet ---------------------------------------------------------------------------------

_LEAVES: dict[str, Any] = {}
_REG: dict[Any, tuple[str, Any, Any]] = {}  # object -> (name, exact SI value, dim)


def _setup() -> None:
    if _LEAVES:
        return
    from symplyphysics import Quantity, Symbol as SPSymbol, Function as SPFunction
    L = _LEAVES
    L["2"] = sp.Integer(2)
    L["-3"] = sp.Integer(-3)
    L["1/2"] = sp.Rational(1, 2)
    L["1.5"] = sp.Float(1.5)
    L["I"] = sp.I
    L["0"] = sp.S.Zero
    L["oo"] = sp.oo
    L["-oo"] = -sp.oo
    L["nan"] = sp.nan
    for n in ("meter", "second", "kilogram", "gram", "kelvin", "newton", "joule", "radian",
        "electronvolt", "centimeter", "hertz"):
        L[n] = getattr(U, n)
    L["kilo"] = kilo
    L["milli"] = milli

    def q(name: str, expr: Any, val: Any, dim: dims.DimVec, **kw: Any) -> None:
        obj = Quantity(expr, **kw)
        L[name] = obj
        _REG[obj] = (name, sp.sympify(val), dim)

    q("Q3m", 3 * U.meter, 3, dims.L)
    q("Q0len", 0, 0, dims.L, dimension=U.length)
    q("Q2s", 2 * U.second, 2, dims.T)
    q("Q5", 5, 5, dims.ONE)
    q("Qm4m", -4 * U.meter, -4, dims.L)
    q("Q3kg", 3 * U.kilogram, 3, dims.M)
    # magnitudes whose products leave the double range (1e-400, 1e+400) but are ordinary sympy numbers
    L["1e-200"] = sp.Float("1e-200")
    L["1e200"] = sp.Float("1e200")
    q("Qtiny", sp.Float("1e-200") * U.meter, sp.Float("1e-200"), dims.L)
    q("Qhuge", sp.Float("1e200") * U.second, sp.Float("1e200"), dims.T)
    # negative and below the smallest double: float() of its scale factor is -0.0
    q("Qnegtiny", sp.Float("-1e-400") * U.second, sp.Float("-1e-400"), dims.T)
    x = SPSymbol("x", U.length)
    L["x"] = x
    f = SPFunction("f", [x], U.length)
    L["D"] = sp.Derivative(f(x), x)


FULL = ["2", "-3", "1/2", "1.5", "I", "0", "oo", "-oo", "nan", "meter", "second", "kilogram",
    "gram", "kelvin", "newton", "joule", "radian", "electronvolt", "centimeter", "kilo", "milli",
    "Q3m", "Q0len", "Q2s", "Q5", "Qm4m", "Q3kg", "x", "D", "1e-200", "Qtiny", "Qhuge", "hertz", "Qnegtiny"]
MEDIUM = ["2", "-3", "0", "oo", "nan", "meter", "second", "kilogram", "newton", "radian", "kilo",
    "Q3m", "Q0len", "Q2s", "Qm4m", "x", "Qtiny", "Qhuge"]
REDUCED = ["2", "0", "oo", "meter", "second", "kilo", "Q3m", "Q0len", "x"]
EXPONENTS = ["2", "-3", "1/2", "1.5", "0", "meter", "Q5", "Q0len", "radian", "oo"]
COMM = ("Add", "Mul", "Min", "Max")
UNARY = ("Abs", "sin", "exp", "log", "sqrt")
BINARY = ("besselj", "Mod", "beta")  # functions of two arguments that stay unevaluated
BIN_ARGS = ["2", "1/2", "0", "meter", "Q3m", "Q5", "Q0len", "radian", "x"]


def build(d: Any) -> Any:
    if isinstance(d, str):
        return _LEAVES[d]
    op, *kids = d
    a = [build(k) for k in kids]
    if op == "Add":
        return sp.Add(*a)
    if op == "Mul":
        return sp.Mul(*a)
    if op == "Min":
        return sp.Min(*a)
    if op == "Max":
        return sp.Max(*a)
    if op == "Pow":
        return sp.Pow(a[0], a[1])
    if op == "Abs":
        return sp.Abs(a[0])
    if op == "sqrt":
        return sp.sqrt(a[0])
    if op in BINARY:
        return getattr(sp, op)(a[0], a[1])
    return getattr(sp, op)(a[0])


def level1(leaves: list[str], tern: list[str], exps: list[str]) -> Iterator[Any]:
    for op in COMM:
        for c in itertools.combinations_with_replacement(leaves, 2):
            yield (op, ) + c
        for c in itertools.combinations_with_replacement(tern, 3):
            yield (op, ) + c
    for b in leaves:
        for e in exps:
            yield ("Pow", b, e)
    for op in UNARY:
        for a in leaves:
            yield (op, a)
    for op in BINARY:
        for a, b in itertools.product(BIN_ARGS, repeat=2):
            yield (op, a, b)


def level_up(trees: list[Any], partners: list[str], exps: list[str], bases: list[str]) -> Iterator[Any]:
    for t in trees:
        for op in COMM:
            for p in partners:
                yield (op, t, p)
        for e in exps:
            yield ("Pow", t, e)
        for b in bases:
            yield ("Pow", b, t)
        for op in UNARY:
            yield (op, t)
        for op in BINARY:
            for p in ("2", "meter", "Q5"):
                yield (op, t, p)
                yield (op, p, t)


def space(thorough: bool) -> Iterator[Any]:
    for n in FULL:
        yield n
    t1 = list(level1(FULL, MEDIUM[:14] + MEDIUM[16:], EXPONENTS))
    yield from t1
    yield from level_up(t1, FULL if thorough else MEDIUM, EXPONENTS, REDUCED)
    if thorough:
        t1r = [t for t in level1(REDUCED, [], ["2", "1/2", "0", "meter", "Q5"])]
        t2r = list(level_up(t1r, REDUCED, ["2", "1/2", "meter"], ["2", "meter", "Q3m"]))
        yield from level_up(t2r, REDUCED, ["2", "1/2", "meter"], ["2", "meter"])
        for op in COMM:
            for a, b in itertools.combinations_with_replacement(t1r, 2):
                yield (op, a, b)


# ---- reference --------------------------------------------------------------------------------


def show(e: Any) -> str:
    if e in _REG:
        return _REG[e][0]
    if not getattr(e, "args", None) or isinstance(e, (SymQuantity, Prefix)):
        if isinstance(e, Prefix):
            return str(e.name)
        if isinstance(e, sp.Symbol) and hasattr(e, "display_name"):
            return e.display_name
        return sp.srepr(e) if isinstance(e, (sp.Float, )) else str(e)
    if isinstance(e, sp.Derivative):
        return "D"
    return f"{type(e).__name__}({', '.join(show(a) for a in e.args)})"


def _absorb(v: Any, d: Any) -> tuple[Any, Any]:
    if v not in (sp.oo, -sp.oo, sp.nan) and (v.has(sp.oo) or v.has(-sp.oo) or v.has(sp.nan)):
        raise DontCare("infinite / undefined value that is not one of +-oo, NaN")
    if values.is_absorbing(v):
        return v, dims.ANY
    return v, d


def _pure_number(e: Any) -> bool:
    return not e.atoms(SymQuantity, Prefix, sp.Symbol, sp.Derivative, sp.Function) or e.is_Number


def ref(e: Any) -> tuple[Any, Any]:
    """(exact SI value, dimension vector or ANY); raises Refuse / DontCare"""
    if e in _REG:
        _, v, d = _REG[e]
        return _absorb(v, d)
    if isinstance(e, SymQuantity):
        n = str(e.name)
        if n not in values.UNITS:
            raise DontCare(f"unit {n} not in the reference table")
        return values.unit_factor(n), values.unit_dim(n)
    if isinstance(e, Prefix):
        if str(e.name) not in values.PREFIXES:
            raise DontCare(f"prefix object {e.name} made up by sympy")
        return sp.Integer(10)**values.PREFIXES[str(e.name)], dims.ONE
    if isinstance(e, sp.Derivative):
        raise Refuse("unevaluated derivative")
    if isinstance(e, sp.Symbol):
        raise Refuse("free symbol")
    if e.has(sp.zoo):
        raise DontCare("complex infinity")
    if e.is_Number or e.is_NumberSymbol or e == sp.I:
        return _absorb(e, dims.ONE)
    kids = [ref(a) for a in e.args]
    if isinstance(e, sp.Mul):
        v, d = sp.S.One, dims.ONE
        for kv, kd in kids:
            v = v * kv
            d = dims.ANY if isinstance(d, dims.AnyDim) or isinstance(kd, dims.AnyDim) else d * kd
        return _absorb(v, d)
    if isinstance(e, (sp.Add, MinMaxBase)):
        common = None
        for (kv, kd), a in zip(kids, e.args):
            if isinstance(kd, dims.AnyDim):
                continue
            if common is None:
                common = kd
            elif common != kd:
                raise Refuse(f"terms of {type(e).__name__} have dimensions {common} and {kd}")
        vals = [kv for kv, _ in kids]
        if isinstance(e, sp.Add):
            v = sp.Add(*vals)
        else:
            if any(not k.is_extended_real for k in vals):
                raise DontCare("min/max of non-real values")
            v = type(e)(*vals)
        return _absorb(v, dims.ANY if common is None else common)
    if isinstance(e, sp.Pow):
        (bv, bd), (ev, ed) = kids
        if not isinstance(ed, dims.AnyDim) and not ed.dimensionless:
            raise Refuse(f"exponent has dimension {ed}")
        v = bv**ev
        if v.has(sp.zoo):
            raise DontCare("complex infinity")
        if ev == 0:
            return _absorb(v, dims.ONE)  # anything to the power zero is the pure number 1
        if isinstance(bd, dims.AnyDim):
            return _absorb(v, dims.ANY)
        if bd.dimensionless:
            return _absorb(v, dims.ONE)
        if not ev.is_real or ev in (sp.oo, -sp.oo, sp.nan):
            raise DontCare("non-real or infinite power of a dimensional base")
        return _absorb(v, bd**ev)
    if isinstance(e, sp.Abs):
        (v, d), = kids
        return _absorb(sp.Abs(v), d)
    if isinstance(e, sp.Function):
        for (kv, kd) in kids:
            if not isinstance(kd, dims.AnyDim) and not kd.dimensionless:
                raise Refuse(f"argument of {e.func} has dimension {kd}")
        try:
            v = e.func(*[kv for kv, _ in kids])
        except (ZeroDivisionError, ValueError, TypeError, AttributeError, NotImplementedError) as ex:
            # AttributeError / NotImplementedError: sympy's Mod on NaN and on huge non-integers
            raise DontCare(f"{e.func} is undefined for these values: {ex}") from ex
        if v.has(sp.zoo) or v.has(sp.AccumBounds):
            raise DontCare("complex infinity / accumulation bounds")
        return _absorb(v, dims.ONE)
    raise DontCare(f"node type {type(e).__name__}")


REFUSALS = (ValueError, TypeError)


def judge(e: Any) -> tuple[str, str]:
    """returns (outcome label, violation text or '')"""
    from symplyphysics import Quantity
    try:
        want: Any = ref(e)
    except Refuse as r:
        want = r
    except DontCare as r:
        want = r
    except (OverflowError, MemoryError, RecursionError, ValueError, TypeError, ZeroDivisionError,
            NotImplementedError, AttributeError) as r:
        want = DontCare(f"reference cannot evaluate this tree: {type(r).__name__}")
        want.sympy_recursion = isinstance(r, RecursionError)  # type: ignore[attr-defined]
    try:
        q = Quantity(e)
        got: Any = (q.scale_factor, q.dimension)
    except REFUSALS as ex:
        got = ex
    except (RecursionError, OverflowError, ZeroDivisionError, AttributeError, NotImplementedError) as ex:
        got = ex
    if isinstance(want, DontCare):
        if isinstance(got, RecursionError) and getattr(want, "sympy_recursion", False):
            return "dontcare", ""  # sympy itself recurses forever on these numbers (Mod of beta)
        if isinstance(got, Exception) and not isinstance(got, REFUSALS + (OverflowError,
                ZeroDivisionError, AttributeError, NotImplementedError)):
            return "dontcare", f"unexpected exception {type(got).__name__}: {short(got)}"
        return "dontcare", ""
    if isinstance(want, Refuse):
        if isinstance(got, REFUSALS):
            return "refused", ""
        if isinstance(got, Exception):
            return "refused", f"refusal by unexpected exception {type(got).__name__}: {short(got)}"
        return "refused", (f"must be refused ({want}) but was accepted with scale {short(got[0])} and "
            f"dimension {got[1]}")
    wv, wd = want
    if isinstance(got, Exception):
        try:
            big = abs(complex(sp.N(wv, 15)))
            if big == float("inf") or big > 1e300:
                return "dontcare", ""
        except (OverflowError, TypeError, ValueError):
            return "dontcare", ""  # value outside the float range the constructor tests with
        return "accepted", (f"refused with {type(got).__name__}: {str(got)[:150]} but the reference "
            f"gives value {short(wv)} and dimension {wd}")
    gv, gd = got
    try:
        gdv = None if isinstance(wd, dims.AnyDim) else dims.of_dimension(gd)
    except Exception as ex:
        return "accepted", f"unreadable dimension {gd}: {ex}"
    if isinstance(wd, dims.AnyDim):
        # absorbing value: only the value class is compared
        gvs = sp.sympify(gv)
        if values.is_absorbing(gvs) and (gvs == wv or (gvs.is_zero and wv.is_zero)):
            return "absorbing", ""
        if sp.N(gvs) == sp.N(wv) or (sp.N(gvs) == 0 and sp.N(wv) == 0):
            return "absorbing", ""
        return "absorbing", f"value {short(gv)}, reference {short(wv)}"
    if not (isinstance(gdv, dims.DimVec) and gdv == wd):
        return "value", f"dimension {gdv}, reference {wd} (value {short(wv)})"
    try:
        si = values.raw_to_si(gv, wd)
        wvc = values.mpc(wv)
    except Exception as ex:
        return "value", f"scale factor {short(gv)} is not numeric: {short(ex)}"
    if not values.close(si, wvc, 1e-12):
        return "value", f"SI value {si}, reference {wvc}"
    return "value", ""


def _work(chunk: list[Any]) -> dict:
    _setup()
    res: dict[str, Any] = {"n": 0, "keys": [], "outcomes": {}, "violations": [], "undecided": [],
        "samples": []}
    for d in chunk:
        res["n"] += 1
        try:
            with time_limit(10):
                try:
                    e = build(d)
                except Exception:
                    res["outcomes"]["unbuildable"] = res["outcomes"].get("unbuildable", 0) + 1
                    continue
                key = show(e)
                label, viol = judge(e)
        except CaseTimeout:
            res["undecided"].append((str(d), "timeout"))
            continue
        res["outcomes"][label] = res["outcomes"].get(label, 0) + 1
        if getattr(e, "args", None) and not isinstance(e, SymQuantity):
            res["keys"].append(key)
        if viol:
            res["violations"].append((key, viol, {"tree": d, "received": key}))
        elif len(res["samples"]) < 1 and label in ("value", "refused") and isinstance(d, tuple):
            res["samples"].append({"tree": d, "received": key, "outcome": label})
    return res


# ---- histories of user-defined units -----------------------------------------------------------------
# A unit the user defines through sympy's unit system may be defined late and redefined; a quantity
# built from it has the value and dimension of the unit's definition at the time of construction.

EVENTS = ("use", "def:length:7/2", "def:length:201/100", "def:time:5/3", "rel:length:9/4")


def history_case(hist: tuple) -> list[tuple[str, str]]:
    from sympy.physics.units import Quantity as SQ
    from sympy.physics.units.systems.si import SI
    from symplyphysics import Quantity
    out = []
    _HIST[0] += 1
    unit = SQ(f"vp_user_unit_{_HIST[0]}_{'_'.join(e.split(':')[0] for e in hist)}")
    current = None  # (dimension name, SI factor)
    defined_in_si = False
    for step, ev in enumerate(hist):
        kind, *rest = ev.split(":")
        if kind in ("def", "rel"):
            dname, val = rest
            base = U.meter if dname == "length" else U.second
            v = sp.Rational(val)
            if kind == "def":
                SI.set_quantity_dimension(unit, getattr(U, dname))
                SI.set_quantity_scale_factor(unit, v * base)
                defined_in_si = True
                current = (dname, v)
            else:
                unit.set_global_relative_scale_factor(v, base)
                if not defined_in_si:  # sympy: a definition inside the SI system wins over a global one
                    current = (dname, v)
            continue
        key = f"history:{'>'.join(hist)}@{step}"
        if current is None:
            # used before it is defined: nothing is promised, but it must not poison later uses
            try:
                Quantity(2 * unit)
            except Exception:  # pylint: disable=broad-except
                pass
            continue
        try:
            q = Quantity(2 * unit * U.meter)
        except Exception as ex:  # pylint: disable=broad-except
            out.append((key, f"Quantity(2*unit*meter) raised {type(ex).__name__}: {short(ex)}"))
            continue
        want_dim = (dims.L if current[0] == "length" else dims.T) * dims.L
        want_val = 2 * current[1]
        gd = dims.of_dimension(q.dimension)
        ok = dims.same(gd, want_dim) and values.close(values.raw_to_si(q.scale_factor, want_dim),
            values.mpc(want_val), 1e-12)
        out.append((key, "" if ok else
            f"unit currently defined as {current[1]} {current[0]}: Quantity(2*unit*meter) has scale "
            f"{short(q.scale_factor)} and dimension {gd}, reference {want_val} of {want_dim}"))
    return out


_HIST = [0]


def history_work(chunk: list) -> dict:
    _setup()
    res: dict[str, Any] = {"n": 0, "keys": [], "outcomes": {}, "violations": [], "undecided": [],
        "samples": []}
    for hist in chunk:
        for key, viol in history_case(tuple(hist)):
            res["n"] += 1
            res["keys"].append(key)
            res["outcomes"]["history"] = res["outcomes"].get("history", 0) + 1
            if viol:
                res["violations"].append((key, viol, {"history": list(hist), "key": key}))
    return res


def abs_hook_cases() -> list[tuple[str, str]]:
    """Abs of a library quantity is evaluated by the quantity's own hook while the expression is
    built (the tree enumeration only sees what that hook returned): value |q|, dimension of q"""
    from symplyphysics import Quantity
    out = []
    for q, (name, val, dim) in _REG.items():
        for label, mk, want in (("Abs(q)", lambda q=q: sp.Abs(q), sp.Abs(val)), ("Abs(q)+Abs(q)",
            lambda q=q: sp.Abs(q) + sp.Abs(q), 2 * sp.Abs(val)), ("Abs(-q)", lambda q=q: sp.Abs(-q),
            sp.Abs(val))):
            key = f"abs-hook:{label}:{name}"
            try:
                got = Quantity(mk())
            except Exception as ex:  # pylint: disable=broad-except
                out.append((key, f"raised {type(ex).__name__}: {short(ex)}"))
                continue
            gv = values.raw_to_si(got.scale_factor, dim) if not values.is_absorbing(
                got.scale_factor) else None
            if values.is_absorbing(sp.sympify(want)):
                out.append((key, "" if gv is None else f"{label} of {name} has scale "
                    f"{short(got.scale_factor)}, reference {want}"))
                continue
            ok = gv is not None and values.close(gv, values.mpc(want), 1e-12) and dims.same(
                dims.of_dimension(got.dimension), dim)
            out.append((key, "" if ok else f"{label} of {name} has scale {short(got.scale_factor)} "
                f"and dimension {dims.of_dimension(got.dimension)}, reference {want} of {dim}"))
    return out


def main(run: Run) -> int:
    _setup()
    import time
    descs = list(space(run.thorough))
    descs = rotate(descs, run.seed * 7919)
    chunks = [descs[i:i + 400] for i in range(0, len(descs), 400)]
    run.note(space_size=len(descs))
    results = pmap(_work, chunks)
    for r in results:
        n = r.pop("n")
        run.evaluations += n
        r["n"] = 0
        run.absorb([r])
    depth = 5 if run.thorough else 4
    hists = [h for n in range(2, depth + 1) for h in itertools.product(EVENTS, repeat=n) if "use" in
        h]
    for r in pmap(history_work, [hists[i:i + 60] for i in range(0, len(hists), 60)]):
        n = r.pop("n")
        run.evaluations += n
        r["n"] = 0
        run.absorb([r])
    run.note(unit_histories=len(hists), history_depth=depth)
    for key, viol in abs_hook_cases():
        run.case(key, outcome="abs-hook")
        if viol:
            run.violation(key, viol, {"abs_hook": key})
    run.note(bound=("<= 3 internal nodes (third level over the reduced menu)" if run.thorough else
        "<= 2 internal nodes"))
    return run.finish(
        rule="all trees with <= n internal nodes over the leaf/operator alphabet, built with sympy "
        "evaluation on; distinct = distinct canonical trees as received by Quantity() (leaf-only "
        "inputs are counted as trivial); all define / redefine / use histories of a user-defined unit "
        "up to the stated depth",
        exhaustive=True,
        assumptions=["reference unit table vp/values.py", "small-scope hypothesis for depth > bound",
            "cases the property leaves open (complex infinity, non-real powers of dimensional bases, "
            "min/max of non-real numbers) are only required not to crash"])


def replay(case: dict) -> list[str]:
    _setup()

    def tup(x: Any) -> Any:
        return tuple(tup(i) for i in x) if isinstance(x, list) else x

    if "abs_hook" in case:
        return [f"{k}: {v}" for k, v in abs_hook_cases() if v and k == case["abs_hook"]]
    if "history" in case:
        return [f"{k}: {v}" for k, v in history_case(tuple(case["history"])) if v and k ==
            case["key"]]
    e = build(tup(case["tree"]))
    _, viol = judge(e)
    return [f"{show(e)}: {viol}"] if viol else []

"""C13 - circulation and flux integrals satisfy Stokes', Green's and Gauss' theorems.

All five functionals are linear in the field, so equality of two of them on polynomial fields is
decided on the monomial basis per component slot.  Field basis x region alphabet x
reparametrisations x orientation; the library's two ways of computing the same integral are
compared with each other and with an own closed-form line / area / volume integral.
"""
from __future__ import annotations

import itertools
from typing import Any

import sympy as sp

from ..harness import Run, pmap, rotate, short, time_limit, CaseTimeout
import traceback

PROPERTY = "C13"
LEVEL = "exploration"

x, y, z = sp.symbols("x y z", real=True)
t, u, v, rho = sp.symbols("t u v rho", real=True)
Rr, a, b, c, h = sp.symbols("R a b c h", positive=True)
PARAMS = {t, u, v, rho}


def monomials(deg: int, three_d: bool) -> list[Any]:
    vs = (x, y, z) if three_d else (x, y)
    out = [sp.S.One]
    for d in range(1, deg + 1):
        for combo in itertools.combinations_with_replacement(vs, d):
            out.append(sp.Mul(*combo))
    return out


TRIG = [sp.sin(x), sp.cos(y), sp.sin(x) * y]  # rectangle and box only (elementary integrals)


def lib_field(comps: list, cs: Any) -> Any:
    from symplyphysics import Vector
    from symplyphysics.core.fields.vector_field import VectorField
    X, Y, Z = cs.coord_system.base_scalars()
    return VectorField.from_vector(Vector([sp.sympify(e).subs({x: X, y: Y, z: Z},
        simultaneous=True) for e in comps], cs))


class SympyCrash(Exception):
    pass


def call(fn: Any, *args: Any) -> Any:
    """library call; an exception raised from inside sympy (not from the library's own code) is a
    CAS failure on this field, reported as undecided"""
    try:
        return fn(*args)
    except Exception as ex:
        tb = traceback.extract_tb(ex.__traceback__)
        if "/site-packages/sympy/" in tb[-1].filename:
            raise SympyCrash(f"{fn.__name__}: {type(ex).__name__}: {short(ex, 80)}") from ex
        raise


def equal(p: Any, q: Any) -> bool:
    d = sp.simplify(sp.sympify(p) - sp.sympify(q))
    if d == 0:
        return True
    try:
        val = d.subs({Rr: sp.Rational(11, 5), a: sp.Rational(13, 3), b: sp.Rational(3, 7), c:
            sp.Rational(17, 9), h: sp.Rational(5, 4)})
        if val.free_symbols:
            return False
        num = sp.N(val, 25)
        if num.has(sp.Integral):
            num = sp.N(num.doit(), 25)
        return bool(abs(num) < sp.Float("1e-15"))
    except Exception:
        return False


def clean(e: Any, cs: Any) -> str:
    bad = (sp.sympify(e).free_symbols & PARAMS) | (sp.sympify(e).free_symbols & set(
        cs.coord_system.base_scalars())) | (sp.sympify(e).free_symbols & {x, y, z})
    return f"result contains coordinate variables / parameters {bad}: {short(e)}" if bad else ""


# own closed forms (explicit integrands, no library code)
def ref_line(F: list, curve: list, lim: tuple) -> Any:
    cx = list(curve) + [0] * (3 - len(curve))
    Fs = [sp.sympify(f).subs({x: cx[0], y: cx[1], z: cx[2]}, simultaneous=True) for f in F]
    return sp.simplify(sp.integrate(sum(Fs[i] * sp.diff(cx[i], lim[0]) for i in range(3)), lim))


def ref_div_area(F: list, surf: list, l1: tuple, l2: tuple) -> Any:
    """integral of div F over a planar region parametrised by surf(p1, p2) (Jacobian determinant)"""
    div = sp.diff(F[0], x) + sp.diff(F[1], y)
    sx, sy = surf[0], surf[1]
    jac = sp.Abs(sp.simplify(sp.diff(sx, l1[0]) * sp.diff(sy, l2[0]) - sp.diff(sx, l2[0]) *
        sp.diff(sy, l1[0])))
    return sp.simplify(sp.integrate(div.subs({x: sx, y: sy}, simultaneous=True) * jac, l1, l2))


def ref_div_volume(F: list) -> Any:
    div = sp.diff(F[0], x) + sp.diff(F[1], y) + sp.diff(F[2], z)
    return sp.simplify(sp.integrate(div, (z, 0, c), (y, 0, b), (x, 0, a)))


# regions ---------------------------------------------------------------------------------------------
def closed_curves() -> dict:
    return {
        "circle": ([Rr * sp.cos(t), Rr * sp.sin(t)], (t, 0, 2 * sp.pi), [rho * sp.cos(t), rho *
        sp.sin(t)], (rho, 0, Rr), (t, 0, 2 * sp.pi)),
        "circle-2t": ([Rr * sp.cos(2 * t), Rr * sp.sin(2 * t)], (t, 0, sp.pi), [rho * sp.cos(t),
        rho * sp.sin(t)], (rho, 0, Rr), (t, 0, 2 * sp.pi)),
        "ellipse": ([a * sp.cos(t), b * sp.sin(t)], (t, 0, 2 * sp.pi), [rho * a * sp.cos(t), rho *
        b * sp.sin(t)], (rho, 0, 1), (t, 0, 2 * sp.pi)),
    }


def rectangle_segments() -> list:
    return [([u, 0], (u, 0, a)), ([a, u], (u, 0, b)), ([a - u, b], (u, 0, a)), ([0, b - u], (u, 0,
        b))]


def stokes_green_cases(slot: int, mono: Any, mname: str) -> list[tuple[str, str]]:
    from symplyphysics import CoordinateSystem
    from symplyphysics.core.fields import analysis as A
    cs = CoordinateSystem()
    out = []
    F2 = [sp.S.Zero, sp.S.Zero]
    trig = mono.has(sp.sin, sp.cos)
    if slot < 2 and not mono.has(z):
        F2[slot] = mono
        fld = lib_field(F2, cs)
        for name, (curve, lim, surf, l1, l2) in ({} if trig else closed_curves()).items():
            tag = f"{name}:F{slot}={mname}"
            circ = call(A.circulation_along_curve, fld, curve, lim)
            circ_s = call(A.circulation_along_surface_boundary, fld, surf + [0], l1, l2)
            want = ref_line(F2 + [0], curve, lim)
            out.append((f"stokes:{tag}", "" if equal(circ, circ_s) else
                f"circulation along the curve {short(circ)} != curl over the surface {short(circ_s)}"))
            out.append((f"circulation=ref:{tag}", "" if equal(circ, want) else
                f"circulation {short(circ)}, closed form {short(want)}"))
            out.append((f"clean:circulation:{tag}", clean(circ, cs) or clean(circ_s, cs)))
            flux = call(A.flux_across_curve, fld, curve, lim)
            flux_s = call(A.flux_across_surface_boundary, fld, surf + [0], l1, l2)
            wantf = ref_div_area(F2, surf, l1, l2)
            out.append((f"green:{tag}", "" if equal(flux, flux_s) else
                f"flux across the curve {short(flux)} != divergence over the region {short(flux_s)}"))
            out.append((f"flux=ref:{tag}", "" if equal(flux, wantf) else
                f"flux across the curve {short(flux)}, closed form {short(wantf)}"))
            out.append((f"clean:flux:{tag}", clean(flux, cs) or clean(flux_s, cs)))
            if name in ("circle", "ellipse"):
                # the same region traversed clockwise, given as a flat 2-component and as a
                # 3-component surface: both integrals flip their sign together
                mirror = {t: -t}
                rsurf = [c.subs(mirror) for c in surf]
                rcurve = [c.subs(mirror) for c in curve]
                cr_curve = call(A.circulation_along_curve, fld, rcurve, lim)
                for label, sf in (("flat", rsurf), ("3d", rsurf + [0])):
                    cr_s = call(A.circulation_along_surface_boundary, fld, sf, l1, l2)
                    out.append((f"stokes-clockwise-{label}:{tag}", "" if equal(cr_curve, cr_s) and
                        equal(cr_s, -circ) else f"clockwise {label} surface: curl integral "
                        f"{short(cr_s)}, curve integral {short(cr_curve)}, counter-clockwise value "
                        f"{short(circ)}"))
                flat = call(A.circulation_along_surface_boundary, fld, surf, l1, l2)
                out.append((f"stokes-flat:{tag}", "" if equal(flat, circ) else
                    f"2-component surface gives {short(flat)}, 3-component {short(circ_s)}"))
                fl_flat = call(A.flux_across_surface_boundary, fld, surf, l1, l2)
                out.append((f"green-flat:{tag}", "" if equal(fl_flat, flux) else
                    f"2-component surface gives divergence integral {short(fl_flat)}, curve flux "
                    f"{short(flux)}"))
            if name == "circle":
                # orientation reversal flips the sign
                rev = [Rr * sp.cos(-t), Rr * sp.sin(-t)]
                cr = call(A.circulation_along_curve, fld, rev, lim)
                out.append((f"orientation:circulation:{tag}", "" if equal(cr, -circ) else
                    f"reversed curve gives {short(cr)}, expected {short(-circ)}"))
                fr = call(A.flux_across_curve, fld, rev, lim)
                out.append((f"orientation:flux:{tag}", "" if equal(fr, -flux) else
                    f"reversed curve gives flux {short(fr)}, expected {short(-flux)}"))
        # rectangle: four segments against the surface
        tag = f"rectangle:F{slot}={mname}"
        segs = rectangle_segments()
        circ = sum(call(A.circulation_along_curve, fld, cv, lm) for cv, lm in segs)
        circ_s = call(A.circulation_along_surface_boundary, fld, [u, v, 0], (u, 0, a), (v, 0, b))
        out.append((f"stokes:{tag}", "" if equal(circ, circ_s) else
            f"circulation along the four sides {short(circ)} != curl over the rectangle "
            f"{short(circ_s)}"))
        flux = sum(call(A.flux_across_curve, fld, cv, lm) for cv, lm in segs)
        flux_s = call(A.flux_across_surface_boundary, fld, [u, v, 0], (u, 0, a), (v, 0, b))
        out.append((f"green:{tag}", "" if equal(flux, flux_s) else
            f"flux across the four sides {short(flux)} != divergence over the rectangle "
            f"{short(flux_s)}"))
        out.append((f"clean:{tag}", clean(circ_s, cs) or clean(flux_s, cs)))
        # rectangle with the two parameters exchanged: negatively oriented, flat and 3-component
        for label, sf in (("flat", [v, u]), ("3d", [v, u, 0])):
            cs_sw = call(A.circulation_along_surface_boundary, fld, sf, (u, 0, b), (v, 0, a))
            out.append((f"stokes-swapped-{label}:{tag}", "" if equal(cs_sw, -circ) else
                f"rectangle with exchanged parameters ({label}): {short(cs_sw)}, expected "
                f"{short(-circ)}"))
    if slot < 2 and mono.has(z) and not trig:
        # planar regions given with two components lie in the plane z = 0: a field component that
        # mentions z is taken there (missing coordinates are zero), in the curve integral and in the
        # divergence / curl integrals alike
        F2z = [sp.S.Zero, sp.S.Zero]
        F2z[slot] = mono * (1 + z) + mono.subs(z, 1)
        fldz = lib_field(F2z, cs)
        curve, lim, surf, l1, l2 = closed_curves()["circle"]
        tag = f"circle-z:F{slot}={mname}"
        F0 = [f.subs(z, 0) for f in F2z]
        flux = call(A.flux_across_curve, fldz, curve, lim)
        for label, sf in (("flat", surf), ("3d", surf + [0])):
            fs = call(A.flux_across_surface_boundary, fldz, sf, l1, l2)
            out.append((f"green-{label}:{tag}", "" if equal(flux, fs) and equal(fs, ref_div_area(F0,
                surf, l1, l2)) else f"flux across the circle {short(flux)}, divergence over the "
                f"{label} disc {short(fs)}, closed form {short(ref_div_area(F0, surf, l1, l2))}"))
            cs_ = call(A.circulation_along_surface_boundary, fldz, sf, l1, l2)
            wantc = ref_line(F0 + [0], curve, lim)
            out.append((f"stokes-{label}:{tag}", "" if equal(cs_, wantc) else
                f"curl over the {label} disc {short(cs_)}, line integral {short(wantc)}"))
            out.append((f"clean-{label}:{tag}", clean(fs, cs) or clean(cs_, cs)))
    if trig:
        return out
    # triangle: the inner limits depend on the outer parameter (surface given as a graph over a
    # region that is not a rectangle); tilted, so every component of the curl is seen
    F3t = [sp.S.Zero] * 3
    F3t[slot] = mono
    fld3t = lib_field(F3t, cs)
    tri = [u, v, c * (1 - u / a - v / b)]
    tag = f"triangle:F{slot}={mname}"
    sides = [([a * (1 - t), b * t, 0], (t, 0, 1)), ([0, b * (1 - t), c * t], (t, 0, 1)),
        ([a * t, 0, c * (1 - t)], (t, 0, 1))]
    circ = sum(call(A.circulation_along_curve, fld3t, cv, lm) for cv, lm in sides)
    circ_s = call(A.circulation_along_surface_boundary, fld3t, tri, (u, 0, a * (1 - v / b)), (v, 0,
        b))
    out.append((f"stokes:{tag}", "" if equal(circ, circ_s) else
        f"circulation along the three sides {short(circ)} != curl over the triangle {short(circ_s)}"))
    want = sum(ref_line(F3t, cv, lm) for cv, lm in sides)
    out.append((f"circulation=ref:{tag}", "" if equal(circ, want) else
        f"circulation {short(circ)}, closed form {short(want)}"))
    flux_t = call(A.flux_across_surface, fld3t, tri, (u, 0, a * (1 - v / b)), (v, 0, b))
    nrm = [c / a, c / b, 1]  # d/du x d/dv of the graph
    wantf = sp.integrate(sp.integrate(sum(f.subs({x: u, y: v, z: tri[2]}, simultaneous=True) * n_
        for f, n_ in zip(F3t, nrm)), (u, 0, a * (1 - v / b))), (v, 0, b))
    out.append((f"flux=ref:{tag}", "" if equal(flux_t, wantf) else
        f"flux through the triangle {short(flux_t)}, closed form {short(wantf)}"))
    out.append((f"clean:{tag}", clean(circ_s, cs) or clean(flux_t, cs)))
    # paraboloid cap: 3-component field
    F3 = [sp.S.Zero] * 3
    F3[slot] = mono
    fld3 = lib_field(F3, cs)
    cap = [rho * sp.cos(t), rho * sp.sin(t), h * (Rr**2 - rho**2)]
    tag = f"paraboloid:F{slot}={mname}"
    circ = call(A.circulation_along_curve, fld3, [Rr * sp.cos(t), Rr * sp.sin(t), 0], (t, 0, 2 * sp.pi))
    circ_s = call(A.circulation_along_surface_boundary, fld3, cap, (rho, 0, Rr), (t, 0, 2 * sp.pi))
    out.append((f"stokes:{tag}", "" if equal(circ, circ_s) else
        f"circulation along the rim {short(circ)} != curl over the paraboloid cap {short(circ_s)}"))
    out.append((f"clean:{tag}", clean(circ, cs) or clean(circ_s, cs)))
    # the same field given with fewer components (missing ones are zero): same integrals
    for ncomp in range(slot + 1, 3):
        fshort = lib_field(F3[:ncomp], cs)
        cshort = call(A.circulation_along_surface_boundary, fshort, cap, (rho, 0, Rr), (t, 0, 2 *
            sp.pi))
        out.append((f"stokes-{ncomp}-components:{tag}", "" if equal(cshort, circ) else
            f"field given with {ncomp} components: curl over the paraboloid cap {short(cshort)}, "
            f"circulation along the rim {short(circ)}"))
        lshort = call(A.circulation_along_curve, fshort, [Rr * sp.cos(t), Rr * sp.sin(t), 0], (t, 0,
            2 * sp.pi))
        out.append((f"circulation-{ncomp}-components:{tag}", "" if equal(lshort, circ) else
            f"field given with {ncomp} components: circulation {short(lshort)}, with 3 components "
            f"{short(circ)}"))
    return out


def composite_fields() -> dict:
    """fields with several non-zero components (the functionals are linear, but an implementation
    need not be): in particular fields whose curl or divergence vanishes *on the boundary curve*
    without vanishing inside, gradient fields, and rigid rotation"""
    return {
        "curl-zero-on-circle": [-(y**3 / 3 - Rr**2 * y / 2), x**3 / 3 - Rr**2 * x / 2],
        "div-zero-on-circle": [x**3 / 3 - Rr**2 * x / 2, y**3 / 3 - Rr**2 * y / 2],
        "curl-zero-on-ellipse": [-(y**3 / (3 * b**2) - y / 2), x**3 / (3 * a**2) - x / 2],
        "div-zero-on-ellipse": [x**3 / (3 * a**2) - x / 2, y**3 / (3 * b**2) - y / 2],
        "curl-zero-on-rectangle": [sp.S.Zero, (x**3 / 3 - a * x**2 / 2) * y * (y - b)],
        "div-zero-on-rectangle": [(x**3 / 3 - a * x**2 / 2) * y * (y - b), sp.S.Zero],
        "gradient": [2 * x * y, x**2 + 1],
        "rotation": [-y, x],
        "mixed": [x * y - y, x**2 + y, x],
    }


def composite_cases(fname: str) -> list[tuple[str, str]]:
    from symplyphysics import CoordinateSystem
    from symplyphysics.core.fields import analysis as A
    cs = CoordinateSystem()
    F = composite_fields()[fname]
    F3 = list(F) + [sp.S.Zero] * (3 - len(F))
    fld = lib_field(list(F), cs)
    out = []
    for name, (curve, lim, surf, l1, l2) in closed_curves().items():
        tag = f"composite:{name}:{fname}"
        circ = call(A.circulation_along_curve, fld, curve, lim)
        circ_s = call(A.circulation_along_surface_boundary, fld, surf + [0], l1, l2)
        want = ref_line(F3, curve, lim)
        out.append((f"stokes:{tag}", "" if equal(circ, circ_s) else
            f"circulation along the curve {short(circ)} != curl over the surface {short(circ_s)}"))
        out.append((f"circulation=ref:{tag}", "" if equal(circ, want) else
            f"circulation {short(circ)}, closed form {short(want)}"))
        flux = call(A.flux_across_curve, fld, curve, lim)
        flux_s = call(A.flux_across_surface_boundary, fld, surf + [0], l1, l2)
        wantf = ref_div_area(F3[:2], surf, l1, l2)
        out.append((f"green:{tag}", "" if equal(flux, flux_s) else
            f"flux across the curve {short(flux)} != divergence over the region {short(flux_s)}"))
        out.append((f"flux=ref:{tag}", "" if equal(flux, wantf) else
            f"flux across the curve {short(flux)}, closed form {short(wantf)}"))
        rcurve = [c_.subs({t: -t}) for c_ in curve]
        cr = call(A.circulation_along_curve, fld, rcurve, lim)
        out.append((f"orientation:circulation:{tag}", "" if equal(cr, -circ) else
            f"clockwise curve gives {short(cr)}, expected {short(-circ)}"))
        fr = call(A.flux_across_curve, fld, rcurve, lim)
        out.append((f"orientation:flux:{tag}", "" if equal(fr, -flux) else
            f"clockwise curve gives flux {short(fr)}, expected {short(-flux)}"))
        out.append((f"clean:{tag}", clean(circ, cs) or clean(circ_s, cs) or clean(flux, cs) or
            clean(flux_s, cs)))
    tag = f"composite:rectangle:{fname}"
    segs = rectangle_segments()
    circ = sum(call(A.circulation_along_curve, fld, cv, lm) for cv, lm in segs)
    circ_s = call(A.circulation_along_surface_boundary, fld, [u, v, 0], (u, 0, a), (v, 0, b))
    want = sum(ref_line(F3, cv, lm) for cv, lm in segs)
    out.append((f"stokes:{tag}", "" if equal(circ, circ_s) else
        f"circulation along the four sides {short(circ)} != curl over the rectangle {short(circ_s)}"))
    out.append((f"circulation=ref:{tag}", "" if equal(circ, want) else
        f"circulation {short(circ)}, closed form {short(want)}"))
    flux = sum(call(A.flux_across_curve, fld, cv, lm) for cv, lm in segs)
    flux_s = call(A.flux_across_surface_boundary, fld, [u, v, 0], (u, 0, a), (v, 0, b))
    out.append((f"green:{tag}", "" if equal(flux, flux_s) else
        f"flux across the four sides {short(flux)} != divergence over the rectangle {short(flux_s)}"))
    # the rectangle's boundary as ONE closed piecewise curve is not expressible; a closed polygon
    # through a single smooth parametrisation is the circle / ellipse above
    return out


def gauss_cases(slot: int, mono: Any, mname: str) -> list[tuple[str, str]]:
    from symplyphysics import CoordinateSystem
    from symplyphysics.core.fields import analysis as A
    cs = CoordinateSystem()
    F3 = [sp.S.Zero] * 3
    F3[slot] = mono
    fld = lib_field(F3, cs)
    faces = [  # (surface, limits1, limits2) with outward normals d/dp1 x d/dp2
        ([a, u, v], (u, 0, b), (v, 0, c)), ([0, v, u], (u, 0, c), (v, 0, b)),
        ([v, b, u], (u, 0, c), (v, 0, a)), ([u, 0, v], (u, 0, a), (v, 0, c)),
        ([u, v, c], (u, 0, a), (v, 0, b)), ([v, u, 0], (u, 0, b), (v, 0, a)),
    ]
    total = sum(call(A.flux_across_surface, fld, s, l1, l2) for s, l1, l2 in faces)
    vol = call(A.flux_across_volume_boundary, fld, (0, a), (0, b), (0, c))
    want = ref_div_volume(F3)
    tag = f"box:F{slot}={mname}"
    return [(f"gauss:{tag}", "" if equal(total, vol) else
        f"flux through the six faces {short(total)} != divergence over the box {short(vol)}"),
        (f"gauss=ref:{tag}", "" if equal(vol, want) else
        f"volume integral of the divergence {short(vol)}, closed form {short(want)}"),
        (f"clean:{tag}", clean(total, cs) or clean(vol, cs))]


def curvilinear_volume_cases(system: str) -> list[tuple[str, str]]:
    """Gauss in cylindrical / spherical coordinates: the volume integral of the divergence over a
    coordinate box (shell, ball sector) against an own integral of the chain-rule divergence with
    the Jacobian of the position map; three coordinate-system instances one after the other"""
    from symplyphysics import CoordinateSystem, Vector
    from symplyphysics.core.fields.vector_field import VectorField
    from symplyphysics.core.fields import analysis as A
    from .. import vecref
    out = []
    S = getattr(CoordinateSystem.System, system.upper())
    if system == "cylindrical":
        limits = ((1, 2), (0, 2 * sp.pi), (0, h))
    else:
        limits = ((0, Rr), (0, 2 * sp.pi), (0, sp.pi))
    for inst in range(3):
        cs = CoordinateSystem(S)
        q = cs.coord_system.base_scalars()
        ref = vecref.ChainRule(system, q)
        pos = vecref.position(system, q)
        J = sp.simplify(sp.Matrix(3, 3, lambda i, k: sp.diff(pos[i], q[k])).det())
        J = sp.Abs(J) if system == "cylindrical" else sp.simplify(sp.Abs(J).subs(sp.Abs(sp.sin(q[2])),
            sp.sin(q[2])))
        fields = [[1, 0, 0], [q[0], 0, 0], [q[0]**2, 0, q[0]], [0, q[0], 0], [0, 0, q[0] * sp.cos(q[1])
            if system == "cylindrical" else q[0]], [q[0] * sp.cos(q[1])**2, 0, 0]]
        for F in fields:
            tag = f"gauss-{system}#{inst}:{F}".replace(str(cs.coord_system), "S")
            fld = VectorField.from_vector(Vector(F, cs))
            got = call(A.flux_across_volume_boundary, fld, *limits)
            div = sp.simplify(ref.div(F))
            want = sp.integrate(sp.simplify(div * J), (q[2], *limits[2]), (q[1], *limits[1]), (q[0],
                *limits[0]))
            bad = clean(got, cs)
            out.append((tag, bad or ("" if equal(got, want) else
                f"volume integral of the divergence in {system} coordinates (instance {inst}) is "
                f"{short(got)}, reference {short(sp.simplify(want))}")))
    return out


def _work(item: tuple) -> dict:
    if item[0] == "curvilinear":
        res0: dict[str, Any] = {"n": 0, "keys": [], "outcomes": {}, "violations": [], "undecided": [],
            "samples": []}
        try:
            with time_limit(300):
                cases0 = curvilinear_volume_cases(item[1])
        except (CaseTimeout, SympyCrash) as ex:
            res0["n"] = 1
            res0["undecided"].append((f"curvilinear:{item[1]}", f"{type(ex).__name__}: {ex}"))
            return res0
        res0["n"] = len(cases0)
        for k0, v0 in cases0:
            res0["keys"].append(k0)
            res0["outcomes"]["holds" if not v0 else "fails"] = res0["outcomes"].get("holds" if not v0
                else "fails", 0) + 1
            if v0:
                res0["violations"].append((k0, v0, {"item": ["curvilinear", item[1], ""], "key": k0}))
        return res0
    kind, slot, mtxt = item
    mono = None if kind == "composite" else sp.sympify(mtxt, locals={"x": x, "y": y, "z": z})
    res: dict[str, Any] = {"n": 0, "keys": [], "outcomes": {}, "violations": [], "undecided": [],
        "samples": []}
    try:
        with time_limit(240):
            cases = (composite_cases(mtxt) if kind == "composite" else stokes_green_cases(slot,
                mono, mtxt) if kind == "planar" else gauss_cases(slot, mono, mtxt))
    except CaseTimeout:
        res["n"] = 1
        res["undecided"].append((f"{kind}:F{slot}={mtxt}", "integration timeout"))
        return res
    except SympyCrash as ex:
        res["n"] = 1
        res["undecided"].append((f"{kind}:F{slot}={mtxt}", f"sympy failed: {ex}"))
        return res
    res["n"] = len(cases)
    for k, vmsg in cases:
        res["keys"].append(k)
        res["outcomes"]["holds" if not vmsg else "fails"] = res["outcomes"].get("holds" if not vmsg
            else "fails", 0) + 1
        if vmsg:
            res["violations"].append((k, vmsg, {"item": [kind, slot, mtxt], "key": k}))
    if cases:
        res["samples"].append(cases[0][0])
    return res


def main(run: Run) -> int:
    deg = 3 if run.thorough else 2
    items: list[tuple] = []
    ms = monomials(deg, True)
    if deg < 2:
        ms += [x * y, x**2, y * z]  # the smallest fields with non-constant divergence / curl
    for slot in range(3):
        for m in ms + TRIG:
            items.append(("planar", slot, str(m)))
            items.append(("box", slot, str(m)))
    items += [("curvilinear", "cylindrical", ""), ("curvilinear", "spherical", "")]
    items += [("composite", 0, f) for f in composite_fields()]
    for r in pmap(_work, rotate(items, run.seed)):
        n = r.pop("n")
        run.evaluations += n
        r["n"] = 0
        run.absorb([r])
    run.note(field_degree=deg, regions=["circle", "circle at double speed", "ellipse", "rectangle "
        "(4 segments)", "paraboloid cap", "box (6 faces)"])
    return run.finish(
        rule="field basis (one monomial of degree <= d, or sin x / cos y, in one component slot) x "
        "regions x {Stokes, Green, Gauss, closed form, orientation reversal, freedom from coordinate "
        "variables}; 9 composite fields (curl / divergence vanishing on the boundary only, gradient, "
        "rotation, three components) x the planar regions; distinct = case keys",
        exhaustive=True,
        assumptions=["the functionals are linear in the field, so the monomial basis decides "
            "polynomial fields of the bounded degree for a linear implementation; the composite fields probe non-linear shortcuts", "sympy.integrate / simplify are trusted for the "
            "closed forms"])


def replay(case: dict) -> list[str]:
    kind, slot, mtxt = case["item"]
    r = _work((kind, slot, mtxt))
    return [f"{k}: {w}" for k, w, _ in r["violations"] if k == case["key"]]

"""C06 - symbolic dimension inference agrees with evaluation on quantities.

Explorer: all trees with <= n internal nodes over dimensioned symbols, applied functions,
derivatives, quantities and numbers.  Oracle: reference dimension calculus on the received tree;
numeric value equality of the returned expression; commuting diagram with Quantity(); wrappers.
"""
from __future__ import annotations

import itertools
from typing import Any, Iterator

import sympy as sp
from sympy.physics import units as U
from sympy.physics.units import Quantity as SymQuantity
from sympy.functions.elementary.miscellaneous import MinMaxBase

from .. import dims, values, explore
from ..harness import Run, pmap, rotate, time_limit, CaseTimeout, short

PROPERTY = "C06"
LEVEL = "exploration"

_LEAVES: dict[str, Any] = {}
_DIM: dict[Any, dims.DimVec] = {}  # declared dimension of symbols / function classes / derivative
_NAME: dict[Any, str] = {}
_NUM: dict[Any, Any] = {}  # numeric assignment for value equality
_QSUB: dict[Any, Any] = {}  # quantity assignment for the commuting diagram
_FUNSUB: dict[Any, Any] = {}


class Err(Exception):

    def __init__(self, kind: str, msg: str):
        super().__init__(msg)
        self.kind = kind  # "units" | "exponent"


class Murky(Exception):
    pass


def _setup() -> None:
    if _LEAVES:
        return
    from symplyphysics import Quantity, Symbol, Function
    L = _LEAVES
    for n, v in (("2", 2), ("-3", -3), ("1/2", sp.Rational(1, 2)), ("0", 0), ("oo", sp.oo),
        ("nan", sp.nan)):
        L[n] = sp.sympify(v)
    lat = iter(values.LATTICE)

    def sym(name: str, d: Any, dv: dims.DimVec, unit: Any) -> Any:
        s = Symbol(name, d)
        L[name] = s
        _DIM[s] = dv
        _NAME[s] = name
        _NUM[s] = next(lat)
        _QSUB[s] = Quantity(_NUM[s] * unit)
        return s

    sL = sym("sL", U.length, dims.L, U.meter)
    sT = sym("sT", U.time, dims.T, U.second)
    sym("sM", U.mass, dims.M, U.kilogram)
    s1 = sym("s1", U.Dimension(1), dims.ONE, 1)
    sym("sV", U.velocity, dims.L / dims.T, U.meter / U.second)
    from sympy.physics.units.definitions.dimension_definitions import angle as _angle
    sym("sA", _angle, dims.ONE, U.radian)

    # wrapped operands used as leaves: they carry the dimension inferred for their argument
    from symplyphysics.core.operations.symbolic import (Average, FiniteDifference,
        ExactDifferential, InexactDifferential)
    for name, cls, arg, dv, unit in (("avL", Average, sL, dims.L, U.meter),
        ("dT", FiniteDifference, sT, dims.T, U.second),
        ("dM", ExactDifferential, L["sM"], dims.M, U.kilogram),
        ("dW", InexactDifferential, sL * L["sM"], dims.L * dims.M, U.meter * U.kilogram)):
        w = cls(arg)
        L[name] = w
        _DIM[w] = dv
        _NAME[w] = name
        _NUM[w] = next(lat)
        _QSUB[w] = Quantity(_NUM[w] * unit)

    def q(name: str, expr: Any, **kw: Any) -> None:
        o = Quantity(expr, **kw)
        L[name] = o
        _NAME[o] = name

    q("Q3m", 3 * U.meter)
    q("Q0len", 0, dimension=U.length)
    q("Q2s", 2 * U.second)
    q("Q5", 5)
    q("Qz", 0 * U.meter)
    q("Qtiny", sp.Float("1e-200") * U.meter)  # products leave the range of a binary double
    fL = Function("fL", [sT], U.length)
    g1 = Function("g1", [s1], U.Dimension(1))
    hL = Function("hL", [sL, sT], U.length)
    _DIM[fL] = dims.L
    _DIM[g1] = dims.ONE
    _DIM[hL] = dims.L
    t_, x_ = sp.symbols("t_ x_")
    _FUNSUB[fL] = sp.Lambda(t_, 3 * t_**2 + t_)
    _FUNSUB[g1] = sp.Lambda(t_, t_**3 + 2)
    _FUNSUB[hL] = sp.Lambda((x_, t_), x_**3 * t_ + x_)
    L["fL(sT)"] = fL(sT)
    L["g1(s1)"] = g1(s1)
    L["D1"] = sp.Derivative(fL(sT), sT)
    L["D2"] = sp.Derivative(hL(sL, sT), (sL, 2))
    # a derivative whose order is a symbol: dimension length / time**n
    nsym = Symbol("n_order", U.Dimension(1), positive=True, integer=True)
    _DIM[nsym] = dims.ONE
    _NAME[nsym] = "n_order"
    _NUM[nsym] = sp.Integer(2)
    L["Dn"] = sp.Derivative(fL(sT), (sT, nsym))
    for n in ("fL(sT)", "g1(s1)", "D1", "D2", "Dn"):
        _NAME[L[n]] = n
    _QSUB[L["fL(sT)"]] = Quantity(sp.Rational(7, 3) * U.meter)
    _QSUB[L["g1(s1)"]] = Quantity(sp.Rational(9, 4))
    _QSUB[L["D1"]] = Quantity(sp.Rational(5, 3) * U.meter / U.second)
    _QSUB[L["D2"]] = Quantity(sp.Rational(8, 3) / U.meter)


FULL = ["2", "-3", "1/2", "0", "oo", "nan", "sL", "sT", "sM", "s1", "sV", "Q3m", "Q0len",
    "Q2s", "Q5", "Qz", "fL(sT)", "g1(s1)", "D1", "D2", "avL", "dT", "dM", "dW", "Qtiny", "Dn"]
MEDIUM = ["2", "0", "oo", "sL", "sT", "s1", "sV", "Q3m", "Q0len", "Q2s", "Qz", "fL(sT)", "D1",
    "avL", "dT"]
REDUCED = ["2", "0", "sL", "sT", "s1", "Q3m", "Q0len", "D1"]
EXPS = ["2", "-3", "1/2", "0", "s1", "sL", "Q5", "Q2s"]
COMM = ("Add", "Mul", "Min", "Max")
UNARY = ("Abs", "sin", "exp", "log", "sqrt", "fLof", "g1of")


def build(d: Any) -> Any:
    if isinstance(d, str):
        return _LEAVES[d]
    op, *kids = d
    a = [build(k) for k in kids]
    if op in ("Add", "Mul", "Min", "Max", "Pow", "Abs"):
        return getattr(sp, op)(*a)
    if op == "fLof":  # the dimensioned library function applied to an arbitrary argument
        return _LEAVES["fL(sT)"].func(a[0])
    if op == "g1of":
        return _LEAVES["g1(s1)"].func(a[0])
    return getattr(sp, op)(a[0])


def space(thorough: bool) -> Iterator[Any]:
    yield from FULL
    t1 = list(explore.level1(FULL, COMM, UNARY, EXPS, MEDIUM))
    yield from t1
    yield from explore.level_up(t1, FULL if thorough else MEDIUM, COMM, UNARY, EXPS, REDUCED)
    if thorough:
        t1r = list(explore.level1(REDUCED, COMM, UNARY, ["2", "1/2", "s1", "sL"]))
        t2r = list(explore.level_up(t1r, REDUCED, COMM, UNARY, ["2", "s1", "sL"], ["2", "sL"]))
        yield from explore.level_up(t2r, REDUCED, COMM, UNARY, ["2", "s1"], ["2", "sL"])
        yield from explore.pairs_up(t1r, COMM)


def show(e: Any) -> str:
    if e in _NAME:
        return _NAME[e]
    if not getattr(e, "args", None) or isinstance(e, SymQuantity):
        return str(e)
    return f"{type(e).__name__}({', '.join(show(a) for a in e.args)})"


# ---- reference --------------------------------------------------------------------------------

ABS, NON, MURK = "absorbing", "plain", "murky"


def ref(e: Any) -> tuple[Any, str]:
    """(dimension or ANY, status).  status: 'absorbing' = clearly zero/infinite/NaN (a number or
    quantity with such a value, or a product with such a factor); 'murky' = compound operand that
    contains an absorbing leaf but is not itself clearly absorbing (the property does not say
    whether it counts as a zero term); 'plain' otherwise."""
    if isinstance(e, SymQuantity):
        if values.is_absorbing(e.scale_factor):
            return dims.ANY, ABS
        d = dims.of_dimension(e.dimension)
        return d, NON
    if e in _DIM:
        return _DIM[e], NON
    if e.is_Number or e.is_NumberSymbol:
        return (dims.ANY, ABS) if values.is_absorbing(e) else (dims.ONE, NON)
    if isinstance(e, sp.Derivative):
        f = e.args[0]
        d = _DIM[f.func]
        for v, n in e.args[1:]:
            d = d / (_DIM[v]**n)
        return d, NON
    if isinstance(e, sp.Symbol):
        return dims.ONE, NON
    if e.has(sp.zoo):
        raise Murky("zoo")
    kids = [ref(a) for a in e.args]
    murky = any(s != NON for _, s in kids)
    if isinstance(e, sp.Mul):
        if any(s == ABS for _, s in kids):
            return dims.ANY, ABS
        d = dims.ONE
        for kd, _ in kids:
            d = d * kd
        return d, (MURK if murky else NON)
    if isinstance(e, MinMaxBase) and all(a.is_number or isinstance(a, SymQuantity) for a in e.args):
        # sympy can order numbers and quantities and normally folds such a node; whether it does
        # depends on its assumption cache, so nothing is required of a node it left unevaluated
        raise Murky("min/max of comparable operands left unevaluated by sympy")
    if isinstance(e, (sp.Add, MinMaxBase)):
        plain = [kd for kd, s in kids if s == NON]
        murk = [kd for kd, s in kids if s == MURK]
        if any(isinstance(kd, dims.DimVec) and kd.symbolic for kd, _ in kids):
            # sympy's dimension system cannot compare / register dimensions with symbolic
            # exponents; what a sum of such terms should do is not fixed by the property
            raise Murky("sum/min/max over a dimension with a symbolic exponent")
        if any(a != plain[0] for a in plain[1:]):
            raise Err("units", f"{type(e).__name__} combines {plain}")
        if not plain and not murk:
            return dims.ANY, ABS
        pool = plain or murk[:1]
        if any(m != pool[0] for m in murk):
            raise Murky("murky operand of another dimension")
        return pool[0], (MURK if murky else NON)
    if isinstance(e, sp.Pow):
        (bd, bs), (ed, es) = kids
        if isinstance(ed, dims.DimVec) and ed.symbolic:
            raise Murky("exponent whose own dimension has a symbolic exponent")
        if es == NON and not ed.dimensionless:
            raise Err("exponent", f"exponent of dimension {ed}")
        if es == MURK and not ed.dimensionless:
            raise Murky("murky exponent")
        if es == ABS and isinstance(e.exp, SymQuantity) and not dims.of_dimension(
                e.exp.dimension).dimensionless:
            raise Murky("zero-valued exponent declared with a dimension")
        if isinstance(bd, dims.AnyDim):
            raise Murky("power of an absorbing base")
        ex = e.exp
        if ex.atoms(SymQuantity) and not isinstance(ex, SymQuantity):
            raise Murky("exponent expression containing a quantity")
        if ex.atoms(SymQuantity):
            ex = ex.xreplace({q: q.scale_factor for q in ex.atoms(SymQuantity)})
        if ex.has(sp.oo) or ex.has(-sp.oo) or ex.has(sp.nan) or not (ex.is_real or
                ex.free_symbols or ex.atoms(sp.Function, sp.Derivative)):
            raise Murky("non-finite exponent")
        return (bd**ex if not bd.dimensionless else dims.ONE), (MURK if murky else NON)
    if isinstance(e, sp.Abs):
        return kids[0][0], kids[0][1]
    if isinstance(e, sp.Function):
        if e.func in _DIM:
            return _DIM[e.func], NON
        if murky:
            raise Murky("elementary function of a zero / infinite argument")
        return dims.ONE, NON
    raise Murky(f"node {type(e).__name__}")


def numeric(e: Any) -> Any:
    """value under the fixed assignment; quantities by raw scale factor"""
    und = sp.core.function.AppliedUndef
    for _ in range(12):  # bottom-up; repeated, because replace() can leave an outer application
        # behind when the rebuilt outer node equals an inner one it has just replaced (f(f(0)))
        if not any(x.func in _FUNSUB for x in e.atoms(und)):
            break
        e = e.replace(lambda x: isinstance(x, und) and x.func in _FUNSUB, lambda x: _FUNSUB[x.func](
            *x.args))
    e = e.doit()
    rep = {s: _NUM[s] for s in e.free_symbols if s in _NUM}
    rep.update({q: q.scale_factor for q in e.atoms(SymQuantity)})
    return e.xreplace(rep)


def same_value(a: Any, b: Any) -> bool:
    try:
        va, vb = numeric(a), numeric(b)
    except (ValueError, TypeError):
        return True  # not evaluable at the (positive, real) assignment: e.g. Min of complex values
    if va == vb:
        return True
    try:
        na, nb = sp.N(va, 30), sp.N(vb, 30)
    except Exception:
        return False
    if na == nb or (na is sp.nan and nb is sp.nan):
        return True
    if na.has(sp.nan) or nb.has(sp.nan) or na.has(sp.zoo) or nb.has(sp.zoo):
        return True  # undefined under the assignment: nothing to compare
    if na.has(sp.oo) or nb.has(sp.oo) or na.has(-sp.oo) or nb.has(-sp.oo):
        # infinite: only the class is compared (the library drops finite factors of an infinity)
        return (na.has(sp.oo) or na.has(-sp.oo)) and (nb.has(sp.oo) or nb.has(-sp.oo))
    try:
        # 15-digit Floats in the input (or in the returned expression) round when multiplied
        tol = 1e-12 if sp.sympify(a).atoms(sp.Float) or sp.sympify(b).atoms(sp.Float) or any(
            sp.sympify(q.scale_factor).atoms(sp.Float) for q in sp.sympify(a).atoms(SymQuantity)) \
            else 1e-20
        return values.close(values.mpc(na), values.mpc(nb), tol)
    except Exception:
        return False


def substitute_quantities(e: Any) -> Any:
    rep = {}
    for k, v in _QSUB.items():
        if not isinstance(k, sp.Symbol):
            rep[k] = v
    e2 = e.xreplace(rep)
    return e2.xreplace({k: v for k, v in _QSUB.items() if isinstance(k, sp.Symbol)})


def dim_with_values(d: dims.DimVec) -> dims.DimVec:
    """symbolic exponents evaluated at the assignment used by the commuting diagram"""
    if not d.symbolic:
        return d
    leaf = {k: v.scale_factor for k, v in _QSUB.items() if not isinstance(k, sp.Symbol)}
    sym = {k: v.scale_factor for k, v in _QSUB.items() if isinstance(k, sp.Symbol)}
    return dims.DimVec({
        k: (v if not isinstance(v, sp.Expr) else sp.nsimplify(v.xreplace(leaf).xreplace(sym)))
        for k, v in d.e.items()
    })


def lib_dim(dim: Any) -> Any:
    """exponent vector of a dimension returned by the library; a dimensionless quantity used as
    an exponent stands for its value"""
    name = sp.sympify(dim.name)
    if name.atoms(SymQuantity):
        name = name.xreplace({q: q.scale_factor for q in name.atoms(SymQuantity)})
    return dims.of_dimension(name)


def function_args_dimensionless(e: Any) -> bool:
    known = {k for k in _QSUB if not isinstance(k, sp.Symbol)}
    if any(f not in known for f in e.atoms(sp.core.function.AppliedUndef)):
        return False  # an applied library function other than the leaves has no quantity to stand for it
    for f in e.atoms(sp.Function):
        if f.func in _DIM or isinstance(f, (sp.Abs, MinMaxBase)):
            continue
        for a in f.args:
            try:
                d, _ = ref(a)
            except Exception:
                return False
            if not isinstance(d, dims.AnyDim) and not d.dimensionless:
                return False
    return True


def judge(e: Any, wrappers: bool) -> tuple[str, str]:
    from symplyphysics.core.dimensions import collect_expression_and_dimension
    from symplyphysics.core.errors import UnitsError
    from symplyphysics import Quantity
    try:
        want: Any = ref(e)
    except Err as r:
        want = r
    except Murky as r:
        want = r
    try:
        got: Any = collect_expression_and_dimension(e)
    except (ValueError, TypeError) as ex:
        got = ex
    except RecursionError as ex:
        got = ex
    if isinstance(want, Murky):
        if isinstance(got, Exception) and not isinstance(got, (ValueError, TypeError)):
            return "dontcare", f"unexpected exception {type(got).__name__}: {short(got)}"
        return "dontcare", ""
    if isinstance(want, Err):
        if isinstance(got, Exception):
            if want.kind == "units" and not isinstance(got, ValueError):
                return "error", f"mismatch reported as {type(got).__name__}: {short(got)}"
            if want.kind == "exponent" and not isinstance(got, ValueError):
                return "error", f"dimensional exponent reported as {type(got).__name__}: {short(got)}"
            return "error", ""
        return "error", f"must report an error ({want}) but returned dimension {got[1]}"
    wd, status = want
    if isinstance(got, Exception):
        return "ok", f"raised {type(got).__name__}: {short(got)} but the reference infers {wd}"
    gexpr, gdim = got
    if status == MURK:
        label = "murky-accepted"
    else:
        label = "ok"
    if status != NON and values.is_absorbing(sp.sympify(gexpr)):
        return label, ""  # the result is zero / infinite: any dimension
    if not isinstance(wd, dims.AnyDim):
        gd = lib_dim(gdim)
        if not dims.same(gd, wd):
            return label, f"inferred dimension {gd}, reference {wd}"
    if not same_value(e, gexpr):
        return label, f"returned expression {short(gexpr)} is not value-equal to the input"
    if isinstance(wd, dims.AnyDim) or status != NON:
        return label, ""
    # commuting diagram (a derivative of symbolic order has no quantity to stand for it)
    symbolic_order = any(not c.is_Integer for d_ in e.atoms(sp.Derivative) for _, c in
        d_.variable_count)
    if function_args_dimensionless(e) and not symbolic_order:
        sub = substitute_quantities(e)
        try:
            q = Quantity(sub)
        except Exception as ex:
            if "not comparable" in str(ex):  # Min/Max of a complex number under the assignment
                return label, ""
            return label, f"diagram: Quantity({short(sub)}) raised {type(ex).__name__}: {short(ex)}"
        if not values.is_absorbing(q.scale_factor) and not sp.sympify(q.scale_factor).has(sp.zoo):
            qd = dims.of_dimension(q.dimension)
            if not dims.same(qd, dim_with_values(wd)):
                return label, f"diagram: Quantity has dimension {qd}, inferred {wd}"
    if wrappers:
        from symplyphysics.core.operations.symbolic import (Average, FiniteDifference,
            ExactDifferential, InexactDifferential)
        for cls in (Average, FiniteDifference, ExactDifferential, InexactDifferential):
            w = cls(e)
            if not dims.same(lib_dim(w.dimension), wd):
                return label, f"{cls.__name__} wrapper has dimension {w.dimension}, reference {wd}"
    return label, ""


def wrapper_identity_cases() -> list[tuple[str, str]]:
    """wrapped operands take their dimension from their own argument: two arguments that merely
    display alike (different symbols, functions or expressions of them) give wrappers with their own
    dimensions, in whatever order they are created; the same argument wrapped twice is one operand"""
    from symplyphysics import Symbol, Function
    from symplyphysics.core.dimensions import collect_expression_and_dimension
    from symplyphysics.core.operations.symbolic import (Average, FiniteDifference,
        ExactDifferential, InexactDifferential)
    out = []
    menu = [("mass", U.mass, dims.M), ("length", U.length, dims.L), ("time", U.time, dims.T),
        ("one", U.Dimension(1), dims.ONE)]
    for cls in (Average, FiniteDifference, ExactDifferential, InexactDifferential):
        for (n1, d1, v1), (n2, d2, v2) in itertools.permutations(menu, 2):
            for shape in ("symbol", "square", "applied", "quantity"):
                key = f"wrapper-identity:{cls.__name__}:{shape}:{n1}:{n2}"
                if shape == "quantity":
                    # two quantities of one dimension whose values print alike (3 digits shown)
                    if n1 == "one" or n2 != "one":
                        continue
                    from symplyphysics import Quantity
                    unit = {"mass": U.kilogram, "length": U.meter, "time": U.second}[n1]
                    a, b = Quantity(sp.Float("3.0001") * unit), Quantity(sp.Float("3.0002") * unit)
                    w1 = w2 = v1
                elif shape == "applied":
                    t = Symbol("t", U.time)
                    a, b = Function("m", [t], d1)(t), Function("m", [t], d2)(t)
                else:
                    a, b = Symbol("m", d1), Symbol("m", d2)
                if shape == "square":
                    a, b, w1, w2 = a**2, b**2, v1**2, v2**2
                elif shape != "quantity":
                    w1, w2 = v1, v2
                wa = cls(a)
                first = lib_dim(wa.dimension)
                wb = cls(b)
                msgs = []
                if not dims.same(first, w1):
                    msgs.append(f"first wrapper has dimension {first}, argument {w1}")
                if not dims.same(lib_dim(wa.dimension), w1):
                    msgs.append(f"after wrapping another argument displayed alike the first wrapper "
                        f"has dimension {lib_dim(wa.dimension)}, its argument {w1}")
                if not dims.same(lib_dim(wb.dimension), w2):
                    msgs.append(f"second wrapper has dimension {lib_dim(wb.dimension)}, argument {w2}")
                if wa == wb:
                    msgs.append("wrappers of two different arguments are equal")
                if wa.factor != a:
                    msgs.append("the first wrapper no longer holds its own argument")
                if cls(a) != wa:
                    msgs.append("the same argument wrapped twice gives different operands")
                try:
                    got = lib_dim(collect_expression_and_dimension(wa * wb)[1])
                    if not dims.same(got, w1 * w2):
                        msgs.append(f"product of the two wrappers inferred as {got}, reference "
                            f"{w1 * w2}")
                except Exception as ex:  # pylint: disable=broad-except
                    msgs.append(f"inference on the product raised {type(ex).__name__}")
                out.append((key, "; ".join(msgs)))
    # history: an operand over a user-defined unit is wrapped, the unit is (re)defined, the same
    # operand is wrapped again: the wrapper shows the dimension the operand has now
    from sympy.physics.units import Quantity as SQ
    from sympy.physics.units.systems.si import SI
    for k, cls in enumerate((Average, FiniteDifference, ExactDifferential, InexactDifferential)):
        for first in ("undefined", "length"):
            unit = SQ(f"vp_wrapper_unit_{k}_{first}")
            x = Symbol("x", U.length)
            if first == "length":
                SI.set_quantity_dimension(unit, U.length)
                SI.set_quantity_scale_factor(unit, 2 * U.meter)
            try:
                cls(unit * x)
            except Exception:  # pylint: disable=broad-except
                pass  # nothing is promised for a unit that is not defined yet
            SI.set_quantity_dimension(unit, U.time)
            SI.set_quantity_scale_factor(unit, 3 * U.second)
            key = f"wrapper-history:{cls.__name__}:{first}->time"
            try:
                w = cls(unit * x)
                got = lib_dim(w.dimension)
                op = lib_dim(collect_expression_and_dimension(unit * x)[1])
                ok = dims.same(got, dims.T * dims.L) and dims.same(op, dims.T * dims.L)
                out.append((key, "" if ok else f"wrapper shows {got}, inference on the operand {op}, "
                    f"reference {dims.T * dims.L}"))
            except Exception as ex:  # pylint: disable=broad-except
                out.append((key, f"raised {type(ex).__name__}: {short(ex)}"))
    return out


def _work(chunk: list[Any]) -> dict:
    _setup()
    res: dict[str, Any] = {"n": 0, "keys": [], "outcomes": {}, "violations": [], "undecided": [],
        "samples": []}
    for d in chunk:
        res["n"] += 1
        try:
            with time_limit(10):
                try:
                    e = build(d)
                except Exception:
                    res["outcomes"]["unbuildable"] = res["outcomes"].get("unbuildable", 0) + 1
                    continue
                key = show(e)
                small = isinstance(d, str) or all(isinstance(k, str) for k in d[1:])
                label, viol = judge(e, wrappers=True)
        except CaseTimeout:
            res["undecided"].append((str(d), "timeout"))
            continue
        res["outcomes"][label] = res["outcomes"].get(label, 0) + 1
        if getattr(e, "args", None) and not isinstance(e, SymQuantity):
            res["keys"].append(key)
        if viol:
            res["violations"].append((key, viol, {"tree": d, "received": key}))
        elif not res["samples"] and label in ("ok", "error") and not small:
            res["samples"].append({"tree": d, "received": key, "outcome": label})
    return res


def unevaluated_minmax_cases() -> list[tuple[str, str]]:
    """Min / Max built with evaluate=False (sympy would fold a number against a quantity): every
    operand list of 2..3 distinct operands out of {0, -3 m, 2 m, symbol l, symbol h (both lengths),
    oo} with at least one symbol; the returned expression is value-equal to the input for
    negative and positive values of the symbols, and the dimension is length."""
    from sympy.physics import units as U
    from symplyphysics import Quantity, Symbol as LSymbol
    from symplyphysics.core.dimensions import collect_expression_and_dimension
    l_, h_ = LSymbol("l", U.length, real=True), LSymbol("h", U.length, real=True)
    menu = {"0": sp.S.Zero, "-3m": Quantity(-3 * U.meter), "2m": Quantity(2 * U.meter), "l": l_,
        "h": h_, "oo": sp.oo, "-oo": -sp.oo}
    out = []
    for op in (sp.Max, sp.Min):
        for n in (2, 3):
            for names in itertools.combinations(menu, n):
                if not {"l", "h"} & set(names):
                    continue
                for order in (names, names[::-1]):
                    e = op(*[menu[x] for x in order], evaluate=False)
                    key = f"unevaluated:{op.__name__}({', '.join(order)})"
                    try:
                        got, dim = collect_expression_and_dimension(e)
                    except Exception as ex:  # pylint: disable=broad-except
                        out.append((key, f"raised {type(ex).__name__}: {short(ex)}"))
                        continue
                    msg = ""
                    if dims.of_dimension(dim) != dims.L:
                        msg = f"dimension {dim}, expected length"
                    for lv, hv in ((-1, -5), (-5, 4), (1, -2), (4, 7), (-2, -1)):
                        rep = {l_: sp.Integer(lv), h_: sp.Integer(hv)}
                        rep_q = lambda x: x.xreplace({q: sp.sympify(q.scale_factor) for q in
                            x.atoms(SymQuantity)}).xreplace(rep)
                        want = op(*[rep_q(sp.sympify(a)) for a in e.args])
                        have = rep_q(sp.sympify(got)).doit()
                        if not msg and sp.simplify(want - have) != 0 and want != have:
                            msg = (f"returned {short(got, 100)}: at l={lv}, h={hv} it is {have}, the "
                                f"input is {want}")
                    out.append((key, msg))
    return out


def main(run: Run) -> int:
    _setup()
    descs = rotate(list(space(run.thorough)), run.seed * 7919)
    run.note(space_size=len(descs), bound="<= 3 internal nodes (third level over the reduced menu)"
        if run.thorough else "<= 2 internal nodes")
    for r in pmap(_work, explore.chunked(descs, 300)):
        n = r.pop("n")
        run.evaluations += n
        r["n"] = 0
        run.absorb([r])
    for key, viol in wrapper_identity_cases():
        run.case(key, outcome="wrapper-identity")
        if viol:
            run.violation(key, viol, {"wrapper_identity": key})
    for key, viol in unevaluated_minmax_cases():
        run.case(key, outcome="unevaluated-minmax")
        if viol:
            run.violation(key, viol, {"unevaluated_minmax": key})
    return run.finish(
        rule="all trees with <= n internal nodes over dimensioned symbols, applied functions, "
        "derivatives, quantities, numbers; distinct = distinct canonical received trees with at "
        "least one internal node",
        exhaustive=True,
        assumptions=["compound operands containing a zero/infinite/NaN leaf (e.g. Q0**2) inside a "
            "sum of another dimension are left open by the property: only 'no unexpected exception'",
            "value equality judged at one fixed generic assignment (rationals) in 30-digit arithmetic"])


def replay(case: dict) -> list[str]:
    _setup()
    if "unevaluated_minmax" in case:
        return [f"{k}: {v}" for k, v in unevaluated_minmax_cases() if v and k ==
            case["unevaluated_minmax"]]
    if "wrapper_identity" in case:
        return [f"{k}: {v}" for k, v in wrapper_identity_cases() if v and k ==
            case["wrapper_identity"]]
    e = build(explore.tup(case["tree"]))
    _, viol = judge(e, wrappers=True)
    return [f"{show(e)}: {viol}"] if viol else []

"""C10 - Cartesian vector arithmetic obeys vector-space, dot and cross product laws.

All operand length combinations 0..3 with generic symbolic components; every operation is compared
with the tuple reference (vp/vecref.py) and the identities named in the property are evaluated on
the library's own results; refusal matrix over coordinate-system combinations.  Exhaustive.
"""
from __future__ import annotations

import itertools
from typing import Any

import sympy as sp

from .. import vecref as R
from ..harness import Run, pmap, rotate, short

PROPERTY = "C10"
LEVEL = "exploration"


def gen(name: str, n: int) -> list:
    return list(sp.symbols(f"{name}1:{n + 1}", real=True)) if n else []


def binary_cases(la: int, lb: int, alias: str = "independent") -> list[tuple[str, str]]:
    from symplyphysics import (Vector, add_cartesian_vectors, subtract_cartesian_vectors,
        dot_vectors, cross_cartesian_vectors, scale_vector, vector_magnitude, vector_unit)
    from symplyphysics.core.vectors.arithmetics import (project_vector, reject_cartesian_vector,
        equal_vectors)
    a, b = gen("a", la), gen("b", lb)
    if alias == "prefix":  # the operands share their leading components (same symbols)
        pool = gen("a", 3)
        a, b = pool[:la], pool[:lb]
    elif alias == "reversed":
        pool = gen("a", 3)
        a, b = pool[:la], pool[::-1][:lb]
    elif alias == "numbers":  # numeric vectors with a common prefix
        nums = [sp.Integer(2), sp.Integer(3), sp.Integer(5)]
        a, b = nums[:la], nums[:lb]
    k, m = sp.symbols("k m", real=True)
    A, B = Vector(a), Vector(b)
    tag = f"{la}x{lb}" + ("" if alias == "independent" else f":{alias}")
    out: list[tuple[str, str]] = []

    def chk(name: str, ok: bool, detail: str = "") -> None:
        out.append((f"{name}:{tag}", "" if ok else f"{name} fails for lengths {la},{lb} {detail}"))

    s = add_cartesian_vectors(A, B)
    chk("add=ref", R.vec_equal(s.components, R.add(a, b)), short(s.components))
    chk("add-length", len(s.components) == max(la, lb))
    chk("add-commutes", R.vec_equal(s.components, add_cartesian_vectors(B, A).components))
    d = subtract_cartesian_vectors(A, B)
    chk("sub=ref", R.vec_equal(d.components, R.sub(a, b)), short(d.components))
    chk("sub-inverse", R.vec_equal(add_cartesian_vectors(d, B).components, a))
    chk("a-a=0", R.vec_equal(subtract_cartesian_vectors(A, A).components, ()))
    chk("scale=ref", R.vec_equal(scale_vector(k, A).components, R.scale(k, a)))
    chk("scale-distributes-vectors", R.vec_equal(scale_vector(k, s).components,
        add_cartesian_vectors(scale_vector(k, A), scale_vector(k, B)).components))
    chk("scale-distributes-scalars", R.vec_equal(scale_vector(k + m, A).components,
        add_cartesian_vectors(scale_vector(k, A), scale_vector(m, A)).components))
    chk("scale-associates", R.vec_equal(scale_vector(k, scale_vector(m, A)).components,
        R.scale(k * m, a)))
    dp = dot_vectors(A, B)
    chk("dot=ref", R.is_zero(dp - R.dot(a, b)), short(dp))
    chk("dot-symmetric", R.is_zero(dp - dot_vectors(B, A)))
    chk("dot-homogeneous", R.is_zero(dot_vectors(scale_vector(k, A), B) - k * dp))
    chk("magnitude^2=self-dot", R.is_zero(vector_magnitude(A)**2 - dot_vectors(A, A)) and
        R.is_zero(dot_vectors(A, A) - R.norm2(a)))
    cr = cross_cartesian_vectors(A, B)
    chk("cross=ref", R.vec_equal(cr.components, R.cross(a, b)), short(cr.components))
    chk("cross-antisymmetric", R.vec_equal(cr.components, R.scale(-1,
        cross_cartesian_vectors(B, A).components)))
    chk("cross-orthogonal", R.is_zero(dot_vectors(cr, A)) and R.is_zero(dot_vectors(cr, B)))
    chk("cross-homogeneous", R.vec_equal(cross_cartesian_vectors(scale_vector(k, A), B).components,
        R.scale(k, cr.components)))
    chk("cross-self-zero", R.vec_equal(cross_cartesian_vectors(A, A).components, ()))
    chk("lagrange-2", R.is_zero(dot_vectors(cr, cr) - (dot_vectors(A, A) * dot_vectors(B, B) -
        dp**2)))
    # padding semantics: same results with explicitly zero-padded operands
    A3, B3 = Vector(list(R.pad(a))), Vector(list(R.pad(b)))
    chk("padding-add", R.vec_equal(s.components, add_cartesian_vectors(A3, B3).components))
    chk("padding-dot", R.is_zero(dp - dot_vectors(A3, B3)))
    chk("padding-cross", R.vec_equal(cr.components, cross_cartesian_vectors(A3, B3).components))
    chk("equal_vectors-padded", equal_vectors(A, A3) is True)
    if la and lb:
        chk("equal_vectors-different", equal_vectors(A, Vector([x + 1 for x in a])) is False)
    if alias != "independent":
        # a vector that is zero for these operands: no direction to project on / normalise
        if R.is_zero(R.norm2(b)):
            return out
    if lb:
        p = project_vector(A, B)
        rj = reject_cartesian_vector(A, B)
        chk("project=ref", R.vec_equal(p.components, R.scale(R.dot(a, b) / R.norm2(b), b)),
            short(p.components))
        chk("project+reject", R.vec_equal(add_cartesian_vectors(p, rj).components, a))
        chk("reject-orthogonal", R.is_zero(dot_vectors(rj, B)))
        chk("project-parallel", R.vec_equal(cross_cartesian_vectors(p, B).components, ()))
        u = vector_unit(B)
        chk("unit-magnitude", R.is_zero(dot_vectors(u, u) - 1))
        chk("unit-direction", R.vec_equal(R.scale(sp.sqrt(R.norm2(b)), u.components), b))
    return out


def ternary_cases(la: int, lb: int, lc: int) -> list[tuple[str, str]]:
    from symplyphysics import (Vector, add_cartesian_vectors, subtract_cartesian_vectors,
        dot_vectors, cross_cartesian_vectors)
    a, b, c = gen("a", la), gen("b", lb), gen("c", lc)
    A, B, C = Vector(a), Vector(b), Vector(c)
    tag = f"{la}x{lb}x{lc}"
    out = []

    def chk(name: str, ok: bool) -> None:
        out.append((f"{name}:{tag}", "" if ok else f"{name} fails for lengths {la},{lb},{lc}"))

    chk("add-associative", R.vec_equal(add_cartesian_vectors(add_cartesian_vectors(A, B), C).
        components, add_cartesian_vectors(A, add_cartesian_vectors(B, C)).components))
    chk("add-variadic", R.vec_equal(add_cartesian_vectors(A, B, C).components, R.add(R.add(a, b),
        c)))
    chk("sub-variadic", R.vec_equal(subtract_cartesian_vectors(A, B, C).components, R.sub(R.sub(a,
        b), c)))
    chk("dot-additive", R.is_zero(dot_vectors(add_cartesian_vectors(A, B), C) - (dot_vectors(A, C)
        + dot_vectors(B, C))))
    chk("cross-additive-left", R.vec_equal(cross_cartesian_vectors(add_cartesian_vectors(A, B), C).
        components, add_cartesian_vectors(cross_cartesian_vectors(A, C),
        cross_cartesian_vectors(B, C)).components))
    chk("cross-additive-right", R.vec_equal(cross_cartesian_vectors(C, add_cartesian_vectors(A, B)).
        components, add_cartesian_vectors(cross_cartesian_vectors(C, A),
        cross_cartesian_vectors(C, B)).components))
    chk("triple-product-cyclic", R.is_zero(dot_vectors(A, cross_cartesian_vectors(B, C)) -
        dot_vectors(B, cross_cartesian_vectors(C, A))))
    chk("bac-cab", R.vec_equal(cross_cartesian_vectors(A, cross_cartesian_vectors(B, C)).components,
        R.sub(R.scale(R.dot(a, c), b), R.scale(R.dot(a, b), c))))
    return out


def quaternary_cases(ls: tuple) -> list[tuple[str, str]]:
    from symplyphysics import Vector, dot_vectors, cross_cartesian_vectors
    vs = [gen(n, l) for n, l in zip("abcd", ls)]
    A, B, C, D = (Vector(v) for v in vs)
    lhs = dot_vectors(cross_cartesian_vectors(A, B), cross_cartesian_vectors(C, D))
    rhs = dot_vectors(A, C) * dot_vectors(B, D) - dot_vectors(A, D) * dot_vectors(B, C)
    tag = "x".join(map(str, ls))
    return [(f"lagrange-4:{tag}", "" if R.is_zero(lhs - rhs) else
        f"Lagrange identity fails for lengths {ls}")]


def refusal_cases() -> list[tuple[str, str]]:
    from symplyphysics import (Vector, CoordinateSystem, add_cartesian_vectors,
        subtract_cartesian_vectors, dot_vectors, cross_cartesian_vectors, scale_vector,
        vector_magnitude, vector_unit)
    from symplyphysics.core.vectors.arithmetics import (project_vector, reject_cartesian_vector,
        equal_vectors)
    S = CoordinateSystem.System
    systems = {"cart1": CoordinateSystem(S.CARTESIAN), "cart2": CoordinateSystem(S.CARTESIAN),
        "cyl1": CoordinateSystem(S.CYLINDRICAL), "cyl2": CoordinateSystem(S.CYLINDRICAL),
        "sph1": CoordinateSystem(S.SPHERICAL), "sph2": CoordinateSystem(S.SPHERICAL)}
    # wrappers of different kinds around one shared inner sympy system (public `inner` argument),
    # and systems derived from cart1: all different coordinate systems
    from symplyphysics.core.coordinate_systems.coordinate_systems import coordinates_transform
    inner = systems["cart2"].coord_system
    systems.update({"cartS": CoordinateSystem(S.CARTESIAN, inner), "cylS": CoordinateSystem(
        S.CYLINDRICAL, inner), "sphS": CoordinateSystem(S.SPHERICAL, inner), "cylT":
        coordinates_transform(systems["cart1"], S.CYLINDRICAL), "cartT": coordinates_transform(
        systems["cyl1"], S.CARTESIAN)})
    shared = {"cart2", "cartS", "cylS", "sphS"}
    binary = {"add": add_cartesian_vectors, "subtract": subtract_cartesian_vectors, "dot":
        dot_vectors, "cross": cross_cartesian_vectors, "project": project_vector, "reject":
        reject_cartesian_vector, "equal": equal_vectors}
    cart_only = {"add", "subtract", "cross", "reject"}
    out = []
    for n in (1, 2, 3):
        for (sa, ca), (sb, cb) in itertools.product(systems.items(), repeat=2):
            A, B = Vector(gen("a", n), ca), Vector(gen("b", n), cb)
            for fname, fn in binary.items():
                same = ca is cb
                cart = sa.startswith("cart")
                if not same and sa in shared and sb in shared and sa[:3] == sb[:3]:
                    continue  # two wrappers of one kind around one inner system: left open
                must_refuse = (not same) or (fname in cart_only and not cart)
                try:
                    fn(A, B)
                    got = "accepted"
                except (ValueError, TypeError):
                    got = "refused"
                want = "refused" if must_refuse else "accepted"
                out.append((f"refusal:{fname}:{sa}:{sb}:{n}", "" if got == want else
                    f"{fname}({sa}, {sb}) was {got}, must be {want}"))
    # variadic sums and differences (3 and 4 operands): refused unless all operands share one
    # Cartesian system, wherever the foreign operand stands; accepted sums equal the pairwise sum
    names = ["cart1", "cart2", "cyl1", "cartS", "cylS", "cartT"]
    for k in (3, 4):
        for combo in itertools.product(names, repeat=k):
            if k == 4 and len(set(combo)) > 2:
                continue
            vs = [Vector(gen("abcd"[i], 2 + (i % 2)), systems[nm]) for i, nm in enumerate(combo)]
            same = all(systems[nm] is systems[combo[0]] for nm in combo)
            if not same and all(nm in shared and nm[:3] == combo[0][:3] for nm in combo):
                continue  # wrappers of one kind around one inner system: left open
            want = "accepted" if same and combo[0].startswith("cart") else "refused"
            for fname, fn in (("add", add_cartesian_vectors), ("subtract",
                subtract_cartesian_vectors)):
                try:
                    r = fn(*vs)
                    got = "accepted"
                except (ValueError, TypeError):
                    got = "refused"
                msg = "" if got == want else f"{fname}{combo} was {got}, must be {want}"
                if not msg and got == "accepted":
                    pair = vs[0]
                    for w in vs[1:]:
                        pair = fn(pair, w)
                    if not R.vec_equal(r.components, pair.components):
                        msg = f"{fname}{combo} differs from the pairwise result"
                out.append((f"refusal:{fname}:{'+'.join(combo)}", msg))
    # the methods of a vector keep it in its own coordinate system: substitution, simplification,
    # the way through a sympy vector and back
    kk = sp.Symbol("kk")
    for nm, cs in systems.items():
        for n in (1, 2, 3):
            comps = gen("a", n)
            V = Vector(comps, cs)
            derived = {"subs": lambda: V.subs(comps[0], kk), "subs-dict": lambda: V.subs({comps[0]:
                kk}), "simplify": lambda: V.simplify()}
            if nm.startswith("cart"):
                derived["sympy-round-trip"] = lambda: Vector.from_sympy_vector(V.to_sympy_vector(), cs)
            for mname, mk in derived.items():
                key = f"method:{mname}:{nm}:{n}"
                try:
                    W = mk()
                except Exception as ex:  # pylint: disable=broad-except
                    out.append((key, f"{mname} raised {type(ex).__name__}: {ex}"))
                    continue
                want = [c.subs(comps[0], kk) for c in comps] if mname.startswith("subs") else comps
                msg = ""
                if W.coordinate_system is not cs:
                    msg = f"{mname} moved a vector of {nm} into another coordinate system"
                elif not R.vec_equal(W.components, want):
                    msg = f"{mname} changed the components: {W.components}"
                else:
                    # it still combines with its own system only
                    other = Vector(gen("b", n), systems["cart1" if nm != "cart1" else "cart2"])
                    try:
                        dot_vectors(W, other)
                        msg = f"vector after {mname} accepted with a vector of another system"
                    except (ValueError, TypeError):
                        pass
                    try:
                        dot_vectors(W, Vector(gen("b", n), cs))
                    except (ValueError, TypeError) as ex:
                        msg = f"vector after {mname} refused with a vector of its own system: {ex}"
                out.append((key, msg))
    # default coordinate system of Vector() is one shared Cartesian instance
    A, B = Vector(gen("a", 2)), Vector(gen("b", 3))
    try:
        add_cartesian_vectors(A, B)
        out.append(("refusal:default-system", ""))
    except Exception as ex:
        out.append(("refusal:default-system", f"two default-system vectors refused: {ex}"))
    for fname, fn in (("add-none", add_cartesian_vectors), ("subtract-one",
        lambda: subtract_cartesian_vectors(A))):
        try:
            fn()
            out.append((f"refusal:{fname}", f"{fname} accepted"))
        except (ValueError, TypeError):
            out.append((f"refusal:{fname}", ""))
    try:
        cross_cartesian_vectors(Vector(gen("a", 4)), B)
        out.append(("refusal:cross-4d", "cross product of a 4-component vector accepted"))
    except ValueError:
        out.append(("refusal:cross-4d", ""))
    return out


# ---- operation sequences: results must not depend on what was computed before -------------------------

SEQ_OPS = ("magnitude", "unit", "dot", "scale", "project")
SEQ_SYSTEMS = ("cartesian", "cylindrical", "spherical")
_SEQ: dict = {}


def _seq_setup() -> dict:
    if _SEQ:
        return _SEQ
    from symplyphysics import CoordinateSystem
    S = CoordinateSystem.System
    _SEQ["cs"] = {"cartesian": CoordinateSystem(S.CARTESIAN), "cylindrical": CoordinateSystem(
        S.CYLINDRICAL), "spherical": CoordinateSystem(S.SPHERICAL)}
    _SEQ["a"] = sp.symbols("a1:4", positive=True)
    _SEQ["b"] = sp.symbols("b1:4", positive=True)
    # one generic point; angles inside the domains
    vals = [sp.Rational(11, 5), sp.pi / 5, sp.Rational(3, 7), sp.Rational(13, 3), sp.pi / 7,
        sp.Rational(5, 9)]
    _SEQ["point"] = dict(zip(_SEQ["a"] + _SEQ["b"], vals))
    return _SEQ


def _to_cart(system: str, q: tuple) -> tuple:
    q1, q2, q3 = q
    if system == "cartesian":
        return q
    if system == "cylindrical":
        return (q1 * sp.cos(q2), q1 * sp.sin(q2), q3)
    # library ordering: (r, azimuth, polar)
    return (q1 * sp.cos(q2) * sp.sin(q3), q1 * sp.sin(q2) * sp.sin(q3), q1 * sp.cos(q3))


def seq_event(op: str, system: str) -> str:
    """run one operation on the shared component tuples in the given system and compare with the
    Cartesian reference; '' if right"""
    from symplyphysics import Vector, dot_vectors, vector_magnitude, vector_unit, scale_vector
    from symplyphysics.core.vectors.arithmetics import project_vector
    Q = _seq_setup()
    cs, a, b, pt = Q["cs"][system], Q["a"], Q["b"], Q["point"]
    A, B = Vector(list(a), cs), Vector(list(b), cs)
    ca, cb = _to_cart(system, a), _to_cart(system, b)
    k = sp.Rational(7, 3)

    def num(e: Any) -> Any:
        return sp.N(sp.sympify(e).subs(pt), 30)

    def close(x: Any, y: Any) -> bool:
        return abs(num(x) - num(y)) < sp.Float("1e-20")

    if op == "magnitude":
        return "" if close(vector_magnitude(A), sp.sqrt(R.norm2(ca))) else \
            f"magnitude in {system} is {num(vector_magnitude(A))}, reference {num(sp.sqrt(R.norm2(ca)))}"
    if op == "dot":
        return "" if close(dot_vectors(A, B), R.dot(ca, cb)) else \
            f"dot product in {system} is {num(dot_vectors(A, B))}, reference {num(R.dot(ca, cb))}"
    if op == "scale":
        got = _to_cart(system, tuple(scale_vector(k, A).components))
        return "" if all(close(x, y) for x, y in zip(got, R.scale(k, ca))) else \
            f"scaling in {system} gives {[num(x) for x in got]}"
    if op == "unit":
        u = vector_unit(A)
        return "" if close(dot_vectors(u, u), 1) else \
            f"unit vector in {system} has squared magnitude {num(dot_vectors(u, u))}"
    if op == "project":
        if system != "cartesian":
            # projection is defined through dot and scale: the Cartesian image must be the projection
            p = project_vector(A, B)
            got = _to_cart(system, tuple(p.components))
            want = R.scale(R.dot(ca, cb) / R.norm2(cb), cb)
            return "" if all(close(x, y) for x, y in zip(got, want)) else \
                f"projection in {system} gives {[num(x) for x in got]}, reference {[num(x) for x in want]}"
        p = project_vector(A, B)
        want = R.scale(R.dot(ca, cb) / R.norm2(cb), cb)
        return "" if all(close(x, y) for x, y in zip(p.components, want)) else \
            f"projection gives {[num(x) for x in p.components]}"
    raise ValueError(op)


def sequence_cases(first: tuple, depth: int) -> list[tuple[str, str]]:
    """all operation sequences of the given depth starting with `first`, each from the initial
    state of the process (forked child)"""
    from .c03 import in_child
    events = [(o, s) for o in SEQ_OPS for s in SEQ_SYSTEMS]
    out = []
    for rest in itertools.product(events, repeat=depth - 1):
        seq = (first, ) + rest

        def run(seq: tuple = seq) -> list:
            return [seq_event(o, s) for o, s in seq]

        res = in_child(run, timeout=120)
        tag = "seq:" + ">".join(f"{o}@{s}" for o, s in seq)
        if isinstance(res, dict) and "error" in res:
            out.append((tag, f"sequence crashed: {res['error']}"))
            continue
        bad = [(i, m) for i, m in enumerate(res) if m]
        # an event that is wrong even as the first of a sequence is a stateless defect and is
        # reported once, by the one-event sequence
        out.append((tag, "" if not bad else f"after {[f'{o}@{s}' for o, s in seq[:bad[0][0]]]}: "
            f"{bad[0][1]}"))
    return out


def extreme_float_cases() -> list[tuple[str, str]]:
    """numeric vectors whose components are ordinary doubles but whose products leave the range
    of a double (sympy's floats have no such range): the identities hold for them as for symbols"""
    from symplyphysics import (Vector, dot_vectors, cross_cartesian_vectors, vector_magnitude,
        vector_unit)
    from symplyphysics.core.vectors.arithmetics import project_vector
    F = sp.Float
    vs = {"huge": [F("3e200"), F("4e200"), F("0.0")], "tiny": [F("3e-200"), F("-4e-200"),
        F("12e-200")], "mixed": [F("3e200"), F("2.0"), F("1e-200")], "huge2": [F("-1e180"),
        F("2e190"), F("5e200")]}

    def rel_ok(got: Any, want: Any) -> bool:
        got, want = sp.sympify(got), sp.sympify(want)
        if want == 0:
            return got == 0
        try:
            return bool(abs(sp.N((got - want) / want, 30)) < sp.Float("1e-12"))
        except TypeError:
            return False

    out = []
    for (na, a), (nb, b) in itertools.product(vs.items(), repeat=2):
        try:
            out.extend(_extreme_pair(na, a, nb, b, rel_ok))
        except (ZeroDivisionError, OverflowError, ValueError, TypeError) as ex:
            out.append((f"extreme:raises:{na}:{nb}", f"arithmetic on {a}, {b} raised "
                f"{type(ex).__name__}: {ex}"))
    return out


def _extreme_pair(na: str, a: list, nb: str, b: list, rel_ok: Any) -> list[tuple[str, str]]:
    from symplyphysics import (Vector, dot_vectors, cross_cartesian_vectors, vector_magnitude,
        vector_unit)
    from symplyphysics.core.vectors.arithmetics import project_vector
    out = []
    if True:
        A, B = Vector(a), Vector(b)
        want = sum(x * y for x, y in zip(a, b))  # sympy Float arithmetic: unbounded exponent
        got = dot_vectors(A, B)
        out.append((f"extreme:dot:{na}:{nb}", "" if rel_ok(got, want) else
            f"dot product of {a} and {b} is {got}, reference {want}"))
        if na == nb:
            m = vector_magnitude(A)
            out.append((f"extreme:magnitude:{na}", "" if rel_ok(m**2, want) else
                f"magnitude of {a} is {m}, reference sqrt({want})"))
            u = vector_unit(A)
            mu = sum(c**2 for c in u.components)
            out.append((f"extreme:unit:{na}", "" if rel_ok(mu, 1) else
                f"unit vector of {a} has squared magnitude {mu}"))
        else:
            c = cross_cartesian_vectors(A, B)
            lhs = sum(x**2 for x in c.components)
            rhs = dot_vectors(A, A) * dot_vectors(B, B) - dot_vectors(A, B)**2
            ref = sum(x**2 for x in a) * sum(y**2 for y in b) - want**2
            # Lagrange's identity, on the scale of its terms (the difference cancels)
            scale = sum(x**2 for x in a) * sum(y**2 for y in b)
            try:
                ok = bool(abs(sp.N((lhs - rhs) / scale, 30)) < sp.Float("1e-10")) and bool(abs(sp.N(
                    (rhs - ref) / scale, 30)) < sp.Float("1e-10"))
            except TypeError:
                ok = False
            out.append((f"extreme:lagrange:{na}:{nb}", "" if ok else
                f"Lagrange's identity fails for {a}, {b}: |a x b|^2 = {lhs}, |a|^2|b|^2 - (a.b)^2 = "
                f"{rhs}"))
            p_ = project_vector(A, B)
            wantp = [want / sum(y**2 for y in b) * y for y in b]
            okp = all(rel_ok(x, y) for x, y in zip(list(p_.components) + [0] * 3, wantp))
            out.append((f"extreme:project:{na}:{nb}", "" if okp else
                f"projection of {a} on {b} is {p_.components}"))
    return out


def _work(item: tuple) -> dict:
    kind, payload = item
    if kind == "sequence":
        cases = sequence_cases(payload[0], payload[1])
        res0: dict[str, Any] = {"n": len(cases), "keys": [k for k, _ in cases], "outcomes": {},
            "violations": [], "samples": [cases[len(cases) // 2][0]] if cases else []}
        for k, v in cases:
            res0["outcomes"]["holds" if not v else "fails"] = res0["outcomes"].get("holds" if not v
                else "fails", 0) + 1
            if v:
                res0["violations"].append((k, v, {"item": [kind, [list(payload[0]), payload[1]]],
                    "key": k}))
        return res0
    if kind == "binary":
        cases = binary_cases(*payload[:2], alias=payload[2] if len(payload) > 2 else "independent")
    elif kind == "ternary":
        cases = ternary_cases(*payload)
    elif kind == "quaternary":
        cases = quaternary_cases(payload)
    elif kind == "extreme":
        cases = extreme_float_cases()
    else:
        cases = refusal_cases()
    res: dict[str, Any] = {"n": len(cases), "keys": [k for k, _ in cases], "outcomes": {},
        "violations": [], "samples": [cases[0][0]] if cases else []}
    for k, v in cases:
        res["outcomes"]["holds" if not v else "fails"] = res["outcomes"].get("holds" if not v else
            "fails", 0) + 1
        if v:
            res["violations"].append((k, v, {"item": [kind, list(payload) if payload else None],
                "key": k}))
    return res


def main(run: Run) -> int:
    items: list[tuple] = [("binary", p) for p in itertools.product(range(4), repeat=2)]
    items += [("binary", p + (al, )) for p in itertools.product(range(4), repeat=2) for al in
        ("prefix", "reversed", "numbers")]
    items += [("ternary", p) for p in itertools.product(range(4), repeat=3)]
    items += [("quaternary", p) for p in itertools.product(range(4), repeat=4)]
    items.append(("refusal", None))
    items.append(("extreme", None))
    depth = 3 if run.thorough else 2
    items += [("sequence", ((o, sy), depth)) for o in SEQ_OPS for sy in SEQ_SYSTEMS]
    for r in pmap(_work, rotate(items, run.seed), chunksize=4):
        n = r.pop("n")
        run.evaluations += n
        r["n"] = 0
        run.absorb([r])
    return run.finish(
        rule="all 16 / 64 / 256 operand length combinations (0..3 each) with distinct generic real "
        "symbols as components, the binary ones also with operands that share components (common "
        "prefix, reversed order, equal numbers); every operation compared with the tuple reference and every "
        "identity of the property evaluated by exact normal form; refusal matrix of 7 binary "
        "functions x 36 ordered pairs of coordinate-system instances x 3 lengths; all sequences of "
        "2 (thorough: 3) operations from {magnitude, unit, dot, scale, project} x 3 systems on one "
        "shared component tuple, each sequence run from the initial state in a forked child",
        exhaustive=True,
        assumptions=["identities are polynomial (rational for projection / unit) in the components, "
            "so agreement for generic symbols is agreement for all values"])


def replay(case: dict) -> list[str]:
    kind, payload = case["item"]
    if kind == "sequence":
        r = _work((kind, (tuple(payload[0]), payload[1])))
        return [f"{k}: {w}" for k, w, _ in r["violations"] if k == case["key"]]
    r = _work((kind, tuple(payload) if payload else None))
    return [f"{k}: {w}" for k, w, _ in r["violations"] if k == case["key"]]

"""C12 - gradient, divergence and curl are the true operators in all three systems.

Each operator is a first-order linear differential operator with coefficient functions of the
coordinates; two such operators coincide on all smooth fields iff they coincide, per component
slot, on the basis {1, q1, q2, q3}.  The check enumerates system x operator x component count x
slot x basis (plus products, a trigonometric field and generic undefined functions, which detect a
change that leaves the class), and compares with the chain-rule reference of vp/vecref.py.
"""
from __future__ import annotations

import itertools
from typing import Any

import sympy as sp

from .. import vecref as R
from ..harness import Run, pmap, rotate, short

PROPERTY = "C12"
LEVEL = "exploration"

SYSTEMS = ("cartesian", "cylindrical", "spherical")
POINTS = {
    "cartesian": [(sp.Rational(3, 7), sp.Rational(11, 5), sp.Rational(-13, 3)), (2, -1, sp.Rational(
    1, 2))],
    "cylindrical": [(sp.Rational(11, 5), sp.pi / 5, sp.Rational(-13, 3)), (sp.Rational(3, 7),
    -2 * sp.pi / 3, 2)],
    "spherical": [(sp.Rational(11, 5), sp.pi / 5, sp.pi / 5), (sp.Rational(3, 7), -2 * sp.pi / 3,
    sp.pi / 2), (2, sp.pi / 6, 3 * sp.pi / 4)],
}
_CACHE: dict = {}


def setup(system: str, instance: int = 0) -> tuple:
    """a coordinate system of the given type; every `instance` is a distinct object with its own
    base scalars (results must not depend on which instance was used before)"""
    if (system, instance) in _CACHE:
        return _CACHE[(system, instance)]
    from symplyphysics import CoordinateSystem, coordinates_transform
    S = getattr(CoordinateSystem.System, system.upper())
    if instance == 2 and system != "cartesian":
        cs = coordinates_transform(CoordinateSystem(), S)  # derived from a Cartesian parent
    else:
        cs = CoordinateSystem(S)
    q = cs.coord_system.base_scalars()
    ref = R.ChainRule(system, q)
    _CACHE[(system, instance)] = (cs, q, ref)
    return _CACHE[(system, instance)]


def basis(q: tuple) -> list[tuple[str, Any]]:
    q1, q2, q3 = q
    f = sp.Function("f")(q1, q2, q3)
    return [("1", sp.S.One), ("q1", q1), ("q2", q2), ("q3", q3), ("q1*q2", q1 * q2), ("q1*q3", q1 *
        q3), ("q2*q3", q2 * q3), ("q1**2", q1**2), ("q2**2", q2**2), ("q3**2", q3**2),
        ("sin(q2)*q1", sp.sin(q2) * q1), ("f(q)", f),
        # nested powers of coordinates that take negative values at the lattice points: not to be
        # "denested" as if every symbol were positive
        ("sqrt(q3**2)", sp.sqrt(q3**2)), ("(q2**2)**(3/2)", (q2**2)**sp.Rational(3, 2)),
        ("q1*sqrt(q2**2*q3**2)", q1 * sp.sqrt(q2**2 * q3**2))]


def zero_at_points(system: str, q: tuple, e: Any) -> bool:
    """identity test: derivative atoms of undefined functions are algebraically independent, so
    they are replaced by fixed generic numbers; coordinates by lattice points"""
    e = sp.sympify(e)
    if e == 0:
        return True
    atoms = sorted(e.atoms(sp.Derivative, sp.core.function.AppliedUndef), key=str)
    for pi_, p in enumerate(POINTS[system]):
        rep = {}
        for i, a in enumerate(atoms):
            rep[a] = sp.Rational(17 + 7 * i + pi_, 9 + 2 * i)
        # substitute derivative atoms first (they contain the coordinates), then the coordinates
        v = e.xreplace(rep).xreplace(dict(zip(q, p)))
        # free parameters of the field (not coordinates): fixed generic numbers
        extra = sorted(v.free_symbols, key=lambda s_: (s_.name, sorted(s_.assumptions0.items())))
        v = v.xreplace({s_: sp.Rational(23 + 4 * i, 11 + 2 * i) for i, s_ in enumerate(extra)})
        try:
            if abs(sp.N(v, 40)) > sp.Float("1e-25"):
                return False
        except TypeError:
            return False
    return True


def op_cases(system: str, instance: int = 0) -> list[tuple[str, str]]:
    from symplyphysics import Vector
    from symplyphysics.core.fields.scalar_field import ScalarField
    from symplyphysics.core.fields.vector_field import VectorField
    from symplyphysics.core.fields.operators import (gradient_operator, divergence_operator,
        curl_operator)
    cs, q, ref = setup(system, instance)
    if instance:
        system_tag = f"{system}#{instance}"
    else:
        system_tag = system
    out = []
    B = basis(q)
    # gradient on the basis
    for name, f in B:
        g = gradient_operator(ScalarField.from_expression(f, cs))
        want = ref.grad(f)
        ok = len(g.components) == 3 and all(zero_at_points(system, q, a - b) for a, b in zip(
            g.components, want))
        out.append((f"grad:{system_tag}:{name}", "" if ok else
            f"gradient of {name} in {system} is {short(g.components, 160)}, chain rule gives "
            f"{short([sp.simplify(w) for w in want], 160)}"))
    # divergence / curl: component count n, one slot carrying a basis element
    for n in range(0, 4):
        slots = list(range(n)) or [None]
        for s in slots:
            for name, f in (B if s is not None else [("empty", None)]):
                comps = [sp.S.Zero] * n
                if s is not None:
                    comps[s] = f
                F = VectorField.from_vector(Vector(comps, cs))
                d = divergence_operator(F)
                wd = ref.div(comps)
                out.append((f"div:{system_tag}:{n}:{s}:{name}", "" if zero_at_points(system, q, d - wd)
                    else f"divergence of {comps} in {system} is {short(d, 160)}, chain rule gives "
                    f"{short(sp.simplify(wd), 160)}"))
                c = curl_operator(F).apply_to_basis().components
                wc = ref.curl(comps)
                ok = all(zero_at_points(system, q, a - b) for a, b in zip(R.pad(c), wc))
                out.append((f"curl:{system_tag}:{n}:{s}:{name}", "" if ok else
                    f"curl of {comps} in {system} is {short(c, 160)}, chain rule gives "
                    f"{short([sp.simplify(w) for w in wc], 160)}"))
    # the same basis element in several slots at once (components that are equal as expressions)
    for pattern in ((1, 1, 0), (1, 0, 1), (0, 1, 1), (1, 1, 1)):
        for name, f in B[1:]:
            comps = [f if on else sp.S.Zero for on in pattern]
            F = VectorField.from_vector(Vector(comps, cs))
            d = divergence_operator(F)
            wd = ref.div(comps)
            tag = "".join(map(str, pattern))
            out.append((f"div:{system_tag}:repeated{tag}:{name}", "" if zero_at_points(system, q, d -
                wd) else f"divergence of {comps} in {system} is {short(d, 160)}, chain rule gives "
                f"{short(sp.simplify(wd), 160)}"))
            c = curl_operator(F).apply_to_basis().components
            wc = ref.curl(comps)
            ok = all(zero_at_points(system, q, a - b) for a, b in zip(R.pad(c), wc))
            out.append((f"curl:{system_tag}:repeated{tag}:{name}", "" if ok else
                f"curl of {comps} in {system} is {short(c, 160)}, chain rule gives "
                f"{short([sp.simplify(w) for w in wc], 160)}"))
    # history: a field that was evaluated at a point (or along a curve) before the operator is
    # applied is still the same field, and so is the vector it was made from
    from symplyphysics.core.points.cartesian_point import CartesianPoint
    from symplyphysics.core.points.cylinder_point import CylinderPoint
    from symplyphysics.core.points.sphere_point import SpherePoint
    PT = {"cartesian": CartesianPoint, "cylindrical": CylinderPoint, "spherical": SpherePoint}[system]
    q1_, q2_, q3_ = q
    for name, comps in (("polynomial", [q1_ * q2_, q2_ * q3_, q1_**2 + q3_]), ("mixed", [q1_ * q3_,
        sp.sin(q2_) * q1_, q2_ * q3_**2])):
        src = Vector(list(comps), cs)
        F = VectorField.from_vector(src)
        for use in ("point", "point-twice", "curl-then-point", "basis-edit"):
            try:
                if use == "basis-edit":
                    # a caller takes the list of base scalars, edits its copy into a trajectory
                    # and evaluates the field there
                    plane = F.basis
                    plane[2] = 0
                    F.apply(plane)
                    shell = F.basis
                    shell[0] = 1
                    F.apply(shell)
                elif use == "curl-then-point":
                    curl_operator(F)(PT(*POINTS[system][0]))
                else:
                    F(PT(*POINTS[system][0]))
                    if use == "point-twice":
                        F(PT(*POINTS[system][-1]))
            except Exception as ex:  # pylint: disable=broad-except
                out.append((f"history:{system_tag}:{name}:{use}", f"evaluation raised "
                    f"{type(ex).__name__}: {short(ex)}"))
                continue
            d = divergence_operator(F)
            c = curl_operator(F).apply_to_basis().components
            ok = zero_at_points(system, q, d - ref.div(comps)) and all(zero_at_points(system, q, a - b)
                for a, b in zip(R.pad(c), ref.curl(comps)))
            msg = "" if ok else (f"after the field was evaluated at a point ({use}) its divergence "
                f"is {short(d, 120)} and its curl {short(c, 160)}")
            if ok and list(src.components) != list(comps):
                msg = f"the vector the field was made from was changed: {short(src.components, 160)}"
            out.append((f"history:{system_tag}:{name}:{use}", msg))
    for name, f in B[4:9]:
        fld = ScalarField.from_expression(f, cs)
        try:
            plane = fld.basis
            plane[2] = 0
            fld.apply(plane)
        except Exception as ex:  # pylint: disable=broad-except
            out.append((f"history:{system_tag}:scalar-basis-edit:{name}", f"raised {type(ex).__name__}"))
            continue
        g = gradient_operator(fld)
        want = ref.grad(f)
        ok = len(g.components) == 3 and all(zero_at_points(system, q, a - b) for a, b in zip(
            g.components, want))
        out.append((f"history:{system_tag}:scalar-basis-edit:{name}", "" if ok else
            f"after the caller edited its copy of the base scalars the gradient of {name} is "
            f"{short(g.components, 160)}"))
    # all slots generic at once, every component count
    G = [sp.Function(f"F{i}")(*q) for i in range(3)]
    for n in range(0, 4):
        comps = G[:n]
        F = VectorField.from_vector(Vector(comps, cs))
        d = divergence_operator(F)
        out.append((f"div:{system_tag}:{n}:generic", "" if zero_at_points(system, q, d - ref.div(comps))
            else f"divergence of a generic {n}-component field differs from the chain rule: "
            f"{short(d, 200)}"))
        cF = curl_operator(F)
        c = cF.apply_to_basis().components
        ok = all(zero_at_points(system, q, a - b) for a, b in zip(R.pad(c), ref.curl(comps)))
        out.append((f"curl:{system_tag}:{n}:generic", "" if ok else
            f"curl of a generic {n}-component field differs from the chain rule: {short(c, 200)}"))
        # div curl F = 0
        dc = divergence_operator(cF)
        out.append((f"divcurl:{system_tag}:{n}", "" if zero_at_points(system, q, dc) else
            f"div(curl F) != 0 for a generic {n}-component field: {short(sp.simplify(dc), 200)}"))
    # curl grad f = 0
    f = sp.Function("f")(*q)
    g = gradient_operator(ScalarField.from_expression(f, cs))
    cg = curl_operator(VectorField.from_vector(g)).apply_to_basis().components
    out.append((f"curlgrad:{system_tag}", "" if all(zero_at_points(system, q, x) for x in cg) else
        f"curl(grad f) != 0: {short([sp.simplify(x) for x in cg], 200)}"))
    # fields with a free parameter whose *name* is that of a coordinate (of this or another kind
    # of system), with different assumptions: a parameter is a constant, whatever it is called
    if instance == 0:
        q1, q2, q3 = q
        for pname in ("x", "y", "z", "r", "theta", "phi", "rho"):
            for aname, assume in (("plain", {}), ("positive", {"positive": True}), ("real", {"real":
                True})):
                par = sp.Symbol(pname, **assume)
                f = par * q1 * q2 + par**2 * q3 + q1**2 / par
                g = gradient_operator(ScalarField.from_expression(f, cs))
                want = ref.grad(f)
                ok = len(g.components) == 3 and all(zero_at_points(system, q, a - b) for a, b in
                    zip(g.components, want))
                out.append((f"grad:{system_tag}:parameter:{pname}:{aname}", "" if ok else
                    f"gradient of a field with the free parameter {pname} ({aname}) in {system} is "
                    f"{short(g.components, 160)}, chain rule gives "
                    f"{short([sp.simplify(w) for w in want], 160)}"))
                comps = [par * q1 * q3, q1 * q2 / par, par**2 * q2 + q1]
                F = VectorField.from_vector(Vector(comps, cs))
                d = divergence_operator(F)
                out.append((f"div:{system_tag}:parameter:{pname}:{aname}", "" if zero_at_points(system,
                    q, d - ref.div(comps)) else f"divergence of a field with the free parameter "
                    f"{pname} ({aname}) in {system} is {short(d, 160)}"))
                c = curl_operator(F).apply_to_basis().components
                ok = all(zero_at_points(system, q, a - b) for a, b in zip(R.pad(c), ref.curl(comps)))
                out.append((f"curl:{system_tag}:parameter:{pname}:{aname}", "" if ok else
                    f"curl of a field with the free parameter {pname} ({aname}) in {system} is "
                    f"{short(c, 160)}"))
    # linearity premise on basis pairs (gradient and divergence of slot 0)
    for (n1, f1), (n2, f2) in itertools.combinations(B[1:6], 2):
        k = sp.Rational(5, 3)
        g12 = gradient_operator(ScalarField.from_expression(f1 + k * f2, cs)).components
        g1 = gradient_operator(ScalarField.from_expression(f1, cs)).components
        g2 = gradient_operator(ScalarField.from_expression(f2, cs)).components
        ok = all(zero_at_points(system, q, a - (b + k * c)) for a, b, c in zip(g12, g1, g2))
        out.append((f"linear:grad:{system_tag}:{n1}+{n2}", "" if ok else "gradient is not linear"))
    return out


def _work(system: str) -> dict:
    # three instances of the same system type, one after the other in one process
    cases = op_cases(system, 0) + op_cases(system, 1) + op_cases(system, 2)
    res: dict[str, Any] = {"n": len(cases), "keys": [k for k, _ in cases], "outcomes": {},
        "violations": [], "samples": [cases[len(cases) // 2][0]]}
    for k, v in cases:
        res["outcomes"]["agrees" if not v else "differs"] = res["outcomes"].get("agrees" if not v
            else "differs", 0) + 1
        if v:
            res["violations"].append((k, v, {"system": system, "key": k}))
    return res


def main(run: Run) -> int:
    for r in pmap(_work, rotate(list(SYSTEMS), run.seed)):
        n = r.pop("n")
        run.evaluations += n
        r["n"] = 0
        run.absorb([r])
    return run.finish(
        rule="3 systems x 3 instances per system type in one process (second and third instance after "
        "the first: results must not depend on earlier calls) x {gradient on a 12-element field basis; divergence and curl for component "
        "counts 0..3 x slot x basis; generic undefined functions in all slots; curl grad = 0; "
        "div curl = 0; linearity on basis pairs}; each result compared with the chain-rule "
        "reference at 2-3 lattice points with derivative atoms as independent numbers",
        exhaustive=True,
        assumptions=["a first-order linear differential operator is determined by its action on "
            "{1, q1, q2, q3} per component slot (products, a trigonometric field and generic "
            "functions guard the premise)", "spherical polar angle in (0, pi)"])


def replay(case: dict) -> list[str]:
    r = _work(case["system"])
    return [f"{k}: {w}" for k, w, _ in r["violations"] if k == case["key"]]

"""C19 - documentation generation is total, faithful and leaves no global state.

(a) Model checking of the AST patcher: every module body of <= n statements over the patcher's
    statement alphabet is patched by the real patch_sympy_evaluate, compiled and executed with the
    real disable/reset functions; probes record sympy's global evaluation flag at every statement.
    State = (body prefix, flag, current member); transitions = statements.
(b) The whole package is generated with every page monitored (flag + canaries after each page),
    in several orders / processes / hash seeds; pages are checked against the modules themselves.
"""
from __future__ import annotations

import ast
import hashlib
import importlib
import importlib.util
import itertools
import json
import os
import re
import shutil
import subprocess
import sys
import tempfile
from typing import Any, Optional

from ..harness import ROOT, Run, pmap, rotate, short, NCPU
from ..catalogue import REPO

PROPERTY = "C19"
LEVEL = "model_checking"

KINDS = ["fd", "fu", "pa", "pr", "at", "ss", "sl", "sb", "se", "sp", "ex"]


def stmt_source(kind: str, i: int) -> str:
    if kind == "fd":
        return f"def f{i}(x=probe({i})):\n    \"doc\"\n    return x\n"
    if kind == "fu":
        return f"def g{i}(x=probe({i})):\n    return x\n"
    if kind == "pa":
        return f"v{i} = probe({i})\n"
    if kind == "pr":
        return f"_p{i} = probe({i})\n"
    if kind == "at":
        return f"holder.a{i}, holder.b{i} = probe({i}), 0\n"
    if kind == "ss":
        return f"probe({i}, ':laws:symbol::')\n" if False else "'''\n:laws:symbol::\n'''\n"
    if kind == "sl":
        return "'''\n:laws:latex::\n'''\n"
    if kind == "sb":
        return "'''\n:laws:symbol::\n\n:laws:latex::\n'''\n"
    if kind == "se":
        return "'''\n:laws:sympy-eval::\n:laws:symbol::\n'''\n"
    if kind == "sp":
        return "'''\nplain documentation\n'''\n"
    if kind == "ex":
        return f"probe({i})\n"
    raise ValueError(kind)


PROBING = {"fd", "fu", "pa", "pr", "at", "ex"}
STRINGS = {"ss", "sl", "sb", "se", "sp"}
DIRECTIVE = {"ss", "sl", "sb"}


def model(body: tuple) -> tuple[dict[int, str], int]:
    """expected flag per probing statement index ('T' | 'F' | '?') and index of the last statement
    that runs (-1: only the docstring)"""
    expect: dict[int, str] = {}
    member: Optional[int] = None
    last_doc = -1
    for i, k in enumerate(body):
        if k in PROBING:
            expect[i] = "T"
        if k == "fd":
            member = i
            last_doc = i
        elif k == "pa":
            member = i
        elif k in STRINGS and member is not None:
            last_doc = i
            if k in DIRECTIVE:
                # the member is rendered in source form; whatever lies between the member and its
                # docstring (never the case in the catalogue) is left open
                expect[member] = "F" if body[member] == "pa" else "?"
                for j in range(member + 1, i):
                    if j in expect:
                        expect[j] = "?"
    # statements after an 'F' member up to the next reset are covered by the rule above; a member
    # may be designated by several docstrings: 'F' wins over 'T'
    return expect, last_doc


def run_body(body: tuple) -> tuple[list[tuple[int, bool]], bool, Optional[str]]:
    """patch + execute; returns (probe log [(index, flag)], flag afterwards, error)"""
    from symplyphysics.docs.patch import patch_sympy_evaluate
    from sympy.core.parameters import global_parameters
    src = "'''Title\n=====\n\ndescription'''\n" + "".join(stmt_source(k, i) for i, k in enumerate(body))
    tree = ast.parse(src)
    log: list[tuple[int, bool]] = []

    class Holder:
        pass

    def probe(i: int, *_a: Any) -> int:
        log.append((i, bool(global_parameters.evaluate)))
        return i

    err = None
    try:
        patched = patch_sympy_evaluate(tree)
        code = compile(patched, "<body>", "exec")
        exec(code, {"probe": probe, "holder": Holder()}, {})  # pylint: disable=exec-used
    except Exception as ex:
        err = f"{type(ex).__name__}: {ex}"
    after = bool(global_parameters.evaluate)
    global_parameters.evaluate = True
    return log, after, err


def check_body(body: tuple) -> list[str]:
    expect, last = model(body)
    log, after, err = run_body(body)
    out = []
    if err:
        out.append(f"patched body raised {err}")
    if not after:
        out.append("I1: evaluation flag is False after the patched body has run")
    ran = [i for i, _ in log]
    should = [i for i, k in enumerate(body) if k in PROBING and i <= last]
    if ran != should:
        out.append(f"I4: statements that ran {ran}, expected exactly {should} (last documented "
            f"node {last})")
    for i, flag in log:
        e = expect.get(i, "T")
        if e == "T" and not flag:
            out.append(f"I2: statement {i} ({body[i]}) ran with evaluation disabled")
        if e == "F" and flag:
            out.append(f"I3: documented member {i} ran with evaluation enabled")
    return out


def _bodies_work(chunk: list[tuple]) -> dict:
    res: dict[str, Any] = {"n": 0, "keys": [], "outcomes": {}, "violations": [], "samples": [],
        "states": 0, "transitions": 0, "traces": 0}
    for body in chunk:
        errs = check_body(body)
        res["n"] += 1
        res["states"] += len(body) + 1
        res["transitions"] += len(body)
        res["traces"] += 1
        res["keys"].append("body:" + ",".join(body))
        res["outcomes"]["body-ok" if not errs else "body-bad"] = res["outcomes"].get("body-ok" if not
            errs else "body-bad", 0) + 1
        for e in errs[:2]:
            res["violations"].append((f"body:{','.join(body)}|{e[:2]}", e, {"body": list(body)}))
    if chunk:
        res["samples"].append({"body": list(chunk[len(chunk) // 2])})
    return res


# ---- (b) whole package ----------------------------------------------------------------------------------


class _RevList(list):

    def sort(self, *a: Any, **k: Any) -> None:  # type: ignore[override]
        super().sort(reverse=True)


def generate(out_dir: str, order: str, monitor: list) -> None:
    """run the real generator from /repo with per-page monitoring"""
    import sympy as sp
    from sympy.core.parameters import global_parameters
    from symplyphysics.docs import build as B
    from symplyphysics import Quantity, units
    real_law, real_pkg, real_walk = B._process_law, B._process_law_package, B.os.walk

    def canary(where: str) -> None:
        x = sp.Symbol("x")
        ok_flag = bool(global_parameters.evaluate)
        ok_add = (x + x == 2 * x)
        try:
            q = Quantity(2 * units.meter + 3 * units.meter)
            ok_q = (q.scale_factor == 5)
        except Exception:
            ok_q = False
        if not (ok_flag and ok_add and ok_q):
            monitor.append(f"after {where}: evaluate={ok_flag}, x+x==2x is {ok_add}, quantity sum is "
                f"{ok_q}")
            global_parameters.evaluate = True

    def law(directory: Any, filename: str, output_dir: str, quiet: bool) -> Any:
        r = real_law(directory, filename, output_dir, quiet)
        canary(f"{directory}/{filename}")
        return r

    def pkg(directory: Any, laws: Any, packages: Any, output_dir: str, quiet: bool) -> Any:
        r = real_pkg(directory, laws, packages, output_dir, quiet)
        canary(f"package {directory}")
        return r

    def walk(top: Any, *a: Any, **k: Any) -> Any:
        for path, dirs, files in real_walk(top, *a, **k):
            d, f = _RevList(dirs), _RevList(files)
            yield path, d, f
            dirs[:] = list(d)

    cwd = os.getcwd()
    os.chdir(REPO)
    B._process_law, B._process_law_package = law, pkg
    if order == "reverse":
        B.os = type("osproxy", (), {"walk": staticmethod(walk)})()  # only walk is used
    try:
        B.generate_laws_docs("symplyphysics", out_dir, ["core"], True)
    finally:
        B._process_law, B._process_law_package = real_law, real_pkg
        B.os = os
        os.chdir(cwd)


def digest_dir(d: str) -> dict[str, str]:
    out = {}
    for fn in sorted(os.listdir(d)):
        with open(os.path.join(d, fn), "rb") as f:
            out[fn] = hashlib.sha1(f.read()).hexdigest()
    return out


def expected_pages() -> dict[str, str]:
    """page name -> source path for every module / package with a title docstring"""
    from symplyphysics.docs.parse import find_title_and_description
    out = {}
    base = REPO + "/symplyphysics"
    for path, dirs, files in os.walk(base):
        rel = os.path.relpath(path, REPO)
        parts = rel.split(os.sep)
        if any(p.startswith((".", "_")) for p in parts) or (len(parts) > 1 and parts[1] == "core"):
            dirs[:] = []
            continue
        for fn in sorted(files):
            if not fn.endswith(".py"):
                continue
            if fn.startswith("__") and fn != "__init__.py":
                continue
            src = os.path.join(path, fn)
            with open(src, encoding="utf-8") as f:
                try:
                    tree = ast.parse(f.read())
                except SyntaxError:
                    continue
            doc = ast.get_docstring(tree)
            if doc is None or _title(doc) is None:
                continue
            stem = parts[1:] + ([] if fn == "__init__.py" else [fn[:-3]])
            out[".".join(stem) + ".rst" if stem else ".rst"] = src
    return out


def _title(doc: str) -> Optional[str]:
    lines = doc.splitlines()
    for idx, line in enumerate(lines[1:], start=1):
        if not line:
            continue
        if set(line) == {"="} or set(line) == {"-"}:
            return "\n".join(lines[:idx])
        # a non-empty line that is not a section break: keep looking (as the generator does)
    return None


def page_checks(out_dir: str, sample_every: int) -> list[tuple[str, str]]:
    """faithfulness of the generated pages against the modules themselves"""
    from .. import printspace
    from symplyphysics.docs.printer_code import code_str
    from symplyphysics.docs.printer_latex import latex_str
    from symplyphysics.core.symbols.symbols import DimensionSymbol
    from symplyphysics.core.operations.symbolic import Symbolic
    from sympy.physics.units.systems.si import dimsys_SI
    out = []
    exp = expected_pages()
    have = set(os.listdir(out_dir))
    for missing in sorted(set(exp) - have):
        out.append((f"page:{missing}", f"documented source {exp[missing]} has no page"))
    for extra in sorted(have - set(exp)):
        out.append((f"page:{extra}", "page generated for a source without title docstring"))
    for page in sorted(have & set(exp)):
        with open(os.path.join(out_dir, page), encoding="utf-8") as f:
            text = f.read()
        if ":laws:symbol::" in text or ":laws:latex::" in text:
            out.append((f"placeholder:{page}", "a :laws: placeholder is left in the page"))
        else:
            out.append((f"placeholder:{page}", ""))
    # own reading of the sources: every public assignment that is followed by a docstring is a
    # documented member and must have its block, every documented function its signature
    for page in sorted(have & set(exp)):
        with open(exp[page], encoding="utf-8") as f:
            tree = ast.parse(f.read())
        with open(os.path.join(out_dir, page), encoding="utf-8") as f:
            text = f.read()
        body = tree.body
        names, funcs = [], []
        last = None
        for st in body:
            if isinstance(st, ast.Assign):
                last = next((t.id for t in st.targets if isinstance(t, ast.Name)), None)
            elif isinstance(st, ast.FunctionDef):
                if ast.get_docstring(st) is not None and not st.name.startswith("_"):
                    funcs.append(st.name)
                last = None
            elif isinstance(st, ast.Expr) and isinstance(st.value, ast.Constant) and isinstance(
                    st.value.value, str) and last and st is not body[0]:
                if not last.startswith("_") and last not in names:
                    names.append(last)
        missing = [n for n in names if f".. py:data:: {n}\n" not in text]
        missingf = [n for n in funcs if f".. py:function:: {n}(" not in text]
        order = [m.group(1) for m in re.finditer(r"\.\. py:data:: (\w+)\n", text)]
        msg = ""
        if missing or missingf:
            msg = f"documented members without a block on the page: {missing + missingf}"
        elif [n for n in order if n in names] != names:
            msg = f"members appear in the order {order}, the source has {names}"
        out.append((f"members:{page}", msg))
    # formulas and symbol tables, module by module
    pages = sorted(have & set(exp))
    for n, page in enumerate(pages):
        if n % sample_every:
            continue
        modname = "symplyphysics." + page[:-4] if page != ".rst" else "symplyphysics"
        with open(os.path.join(out_dir, page), encoding="utf-8") as f:
            text = f.read()
        try:
            members = printspace.source_members(modname, with_directives=True)
        except Exception as ex:
            out.append((f"formula:{page}", f"source form not loadable: {type(ex).__name__}: {short(ex)}"))
            continue
        for attr, value, kinds in members:
            code = code_str(value)
            tex = latex_str(value)
            ok_code = f":code:`{code}`" in text
            tex_lines = [(" " * 8 + ln if ln else ln) for ln in tex.splitlines()]
            ok_tex = all(ln in text for ln in tex_lines if ln.strip())
            # which directives does the docstring carry?  find the member's block
            m = re.search(r"\.\. py:data:: " + re.escape(attr) + r"\n(.*?)(?=\n\.\. py:|\Z)", text,
                re.S)
            block = m.group(1) if m else ""
            wants_code = "SYMBOL" in kinds
            wants_tex = "LATEX" in kinds
            msg = ""
            if not m:
                msg = f"member {attr} has no block on the page"
            elif wants_code and f":code:`{code}`" not in block:
                msg = f"code rendering of {attr} on the page is not the module's own ({short(code, 80)})"
            elif wants_tex and not all(ln in block for ln in tex_lines if ln.strip()):
                msg = f"LaTeX rendering of {attr} on the page is not the module's own"
            out.append((f"formula:{page}:{attr}", msg))
        # symbol table against the live objects
        try:
            mod = importlib.import_module(modname)
        except Exception as ex:
            out.append((f"symbols:{page}", f"module not importable: {type(ex).__name__}"))
            continue
        # the formula on the page, read back with the code parser, has the value of the equation
        # the *imported* module publishes (independent of how the generator obtained its source form)
        from . import c17
        import sympy as sp
        for attr, value, kinds in members:
            live = getattr(mod, attr, None)
            if "SYMBOL" not in kinds or not isinstance(live, sp.Basic) or not isinstance(value,
                    sp.Basic):
                continue
            mm = re.search(r"\.\. py:data:: " + re.escape(attr) + r"\n(.*?)(?=\n\.\. py:|\Z)", text,
                re.S)
            cm = re.search(r":code:`(.*?)`\n", mm.group(1), re.S) if mm else None
            if not cm:
                continue
            try:
                cls, viol = c17.catalogue_equation(modname, attr, live, text=cm.group(1))
            except Exception as ex:
                cls, viol = "structure", ""
            out.append((f"formula-value:{page}:{attr}", "" if not viol else
                f"the formula shown for {attr} does not have the value of the module's equation: "
                f"{short(viol, 200)}"))
        for m in re.finditer(r"\.\. py:data:: (\w+)\n(.*?)(?=\n\.\. py:|\Z)", text, re.S):
            name, block = m.group(1), m.group(2)
            obj = getattr(mod, name, None)
            if not isinstance(obj, (DimensionSymbol, Symbolic)):
                continue
            sm = re.search(r"Symbol:\n    :code:`(.*?)`\n\nLatex:\n    :math:`(.*?)`\n\nDimension:\n"
                r"    :code:`(.*?)`", block, re.S)
            if not sm:
                out.append((f"symbols:{page}:{name}", "documented symbol without Symbol/Latex/Dimension "
                    "table"))
                continue
            dim = obj.dimension
            want_dim = "dimensionless" if dimsys_SI.is_dimensionless(dim) else str(dim.name)
            want = (code_str(obj), latex_str(obj), want_dim)
            got = sm.groups()
            out.append((f"symbols:{page}:{name}", "" if got == want else
                f"symbol table of {name} shows {got}, the object has {want}"))
    return out


def role_checks(out_dir: str) -> list[tuple[str, str]]:
    import symplyphysics.symbols as S
    import symplyphysics.quantities as Qm
    spec = importlib.util.spec_from_file_location("repo_docs_build", REPO + "/docs/build.py")
    out = []
    try:
        assert spec and spec.loader
        mod = importlib.util.module_from_spec(spec)
        spec.loader.exec_module(mod)
        mod.process_generated_files(out_dir)
        out.append(("roles:process", ""))
    except Exception as ex:
        out.append(("roles:process", f"process_generated_files raised {type(ex).__name__}: "
            f"{short(ex, 160)}"))
        return out
    # what the generated pages themselves declare (a cross-reference resolves against these
    # declarations, not against the Python modules): py:currentmodule + py:data / py:function
    declared: set[str] = set()
    for fn in sorted(os.listdir(out_dir)):
        with open(os.path.join(out_dir, fn), encoding="utf-8") as f:
            text = f.read()
        current = ""
        for m in re.finditer(r"^\.\. py:(currentmodule|data|function|attribute):: ([\w.]+)", text,
                re.M):
            if m.group(1) == "currentmodule":
                current = m.group(2)
            else:
                declared.add(f"{current}.{m.group(2)}")
    refs = 0
    for fn in sorted(os.listdir(out_dir)):
        with open(os.path.join(out_dir, fn), encoding="utf-8") as f:
            text = f.read()
        dangling = []
        current = ""
        for m in re.finditer(r"^\.\. py:currentmodule:: ([\w.]+)|:attr:`~?([\w.]+)`", text, re.M):
            if m.group(1):
                current = m.group(1)
                continue
            refs += 1
            t = m.group(2)
            # as Sphinx does: the name as written, or relative to the current module
            if t not in declared and f"{current}.{t}" not in declared:
                dangling.append(t)
        out.append((f"crossrefs:{fn}", "" if not dangling else
            f"cross-reference targets not declared by any generated page: {sorted(set(dangling))[:4]}"))
    out.append(("crossrefs:count", "" if refs > 0 else "no cross-reference found at all"))
    for fn in sorted(os.listdir(out_dir)):
        with open(os.path.join(out_dir, fn), encoding="utf-8") as f:
            text = f.read()
        left = re.findall(r":symbols:`\w*`|:quantity_notation:`\w*`", text)
        bad = ""
        if left:
            bad = f"unresolved roles {left[:3]}"
        for d, n in re.findall(r":attr:`~symplyphysics\.symbols\.(\w+)\.(\w+)`", text):
            sub = getattr(S, d, None)
            if sub is None or not hasattr(sub, n):
                bad = f"resolved target symplyphysics.symbols.{d}.{n} does not exist"
        for n in re.findall(r":attr:`~symplyphysics\.quantities\.(\w+)`", text):
            if not hasattr(Qm, n):
                bad = f"resolved target symplyphysics.quantities.{n} does not exist"
        out.append((f"roles:{fn}", bad))
    return out


# ---- member docstrings: every layout of the two formula placeholders -------------------------------

_LAYOUT_LAW = '''"""
{title}
{underline}

Force is mass times acceleration.
"""

from sympy import Eq
from symplyphysics import symbols

force = symbols.force
"""
:symbols:`force` acting on the body.
"""

mass = symbols.mass
"""
:symbols:`mass` of the body.
"""

acceleration = symbols.acceleration
"""
:symbols:`acceleration` of the body.
"""

law = Eq(force, mass * acceleration)
"""
{law_doc}
"""
'''


def layout_cases() -> list[tuple[str, str]]:
    """a synthetic package whose laws differ only in how the author laid out the docstring of
    `law`: both orders of the two placeholders, one placeholder alone, with and without text before,
    between and after them; generated by the real generator"""
    import sympy as sp
    from symplyphysics import symbols as S_
    from symplyphysics.docs import build as B
    from symplyphysics.docs.printer_code import code_str
    from symplyphysics.docs.printer_latex import latex_str
    tmp = tempfile.mkdtemp(prefix="c19_layout_")
    out = []
    try:
        pkg = os.path.join(tmp, "src", "layoutpkg")
        os.makedirs(pkg)
        open(os.path.join(tmp, "src", "__init__.py"), "w").close()
        with open(os.path.join(pkg, "__init__.py"), "w") as f:
            f.write('"""\nLayouts\n=======\n\nA package of sample laws.\n"""\n')
        layouts = {}
        for order in (("S", "L"), ("L", "S"), ("S", ), ("L", )):
            for gaps in itertools.product((False, True), repeat=len(order) + 1):
                name = "law_" + "".join(order).lower() + "_" + "".join("t" if g else "n" for g in gaps)
                pieces, want = [], []
                for i, tok in enumerate(order):
                    if gaps[i]:
                        pieces.append(f"Words number {i} of the author.")
                        want.append(("text", f"Words number {i} of the author."))
                    pieces.append(":laws:symbol::" if tok == "S" else ":laws:latex::")
                    want.append((tok, ""))
                if gaps[-1]:
                    pieces.append("Closing words of the author.")
                    want.append(("text", "Closing words of the author."))
                layouts[name] = want
                title = name.replace("_", " ")
                with open(os.path.join(pkg, name + ".py"), "w") as f:
                    f.write(_LAYOUT_LAW.format(title=title, underline="=" * len(title),
                        law_doc="\n\n".join(pieces)))
        outdir = os.path.join(tmp, "generated")
        os.makedirs(outdir)
        cwd = os.getcwd()
        os.chdir(tmp)
        try:
            B.generate_laws_docs("src", outdir, [], True)
        finally:
            os.chdir(cwd)
        eq = sp.Eq(S_.force, S_.mass * S_.acceleration)
        code_block, latex_line = f":code:`{code_str(eq)}`", latex_str(eq)
        for name, want in layouts.items():
            key = f"layout:{name}"
            path = os.path.join(outdir, f"layoutpkg.{name}.rst")
            if not os.path.exists(path):
                out.append((key, "no page was generated"))
                continue
            with open(path, encoding="utf-8") as f:
                page = f.read()
            member = page[page.find("py:data:: law"):]
            msgs = []
            if ":laws:" in member or "laws:" in member.replace(":laws:", ""):
                msgs.append("a piece of a placeholder is left in the page")
            n_s = sum(1 for t, _ in want if t == "S")
            n_l = sum(1 for t, _ in want if t == "L")
            if member.count(code_block) != n_s:
                msgs.append(f"code rendering occurs {member.count(code_block)} times, expected {n_s}")
            if member.count(latex_line) != n_l or member.count(".. math::") != n_l:
                msgs.append(f"LaTeX rendering occurs {member.count(latex_line)} times in "
                    f"{member.count('.. math::')} math blocks, expected {n_l}")
            pos = -1
            for t, text in want:
                needle = text if t == "text" else (code_block if t == "S" else latex_line)
                found = member.find(needle, pos + 1)
                if found < 0:
                    msgs.append(f"{needle!r} is missing or out of order")
                    break
                pos = found
            out.append((key, "; ".join(msgs)))
    finally:
        shutil.rmtree(tmp, ignore_errors=True)
    return out


def package_pass(mode: str, thorough: bool) -> dict:
    """one process: pass 1 (+ pass 2 and reverse order in the main pass); returns digests and
    findings"""
    tmp = tempfile.mkdtemp(prefix="c19_")
    res: dict[str, Any] = {"cases": [], "digests": {}}
    try:
        monitor: list[str] = []
        d1 = os.path.join(tmp, "p1")
        os.makedirs(d1)
        generate(d1, "walk", monitor)
        res["digests"]["walk"] = digest_dir(d1)
        res["cases"].append(("monitor:pass1", "; ".join(monitor[:3])))
        if mode == "main":
            res["cases"] += layout_cases()
            res["cases"] += page_checks(d1, 1 if thorough else 1)
            monitor2: list[str] = []
            d2 = os.path.join(tmp, "p2")
            os.makedirs(d2)
            generate(d2, "walk", monitor2)
            res["digests"]["walk-again"] = digest_dir(d2)
            res["cases"].append(("monitor:pass2", "; ".join(monitor2[:3])))
            monitor3: list[str] = []
            d3 = os.path.join(tmp, "p3")
            os.makedirs(d3)
            generate(d3, "reverse", monitor3)
            res["digests"]["reverse"] = digest_dir(d3)
            res["cases"].append(("monitor:reverse", "; ".join(monitor3[:3])))
            # smoke test of later library use
            from . import c20
            from symplyphysics import Quantity, units, Vector, cross_cartesian_vectors
            import sympy as sp
            ok = Quantity(3 * units.meter + 200 * units.centimeter).scale_factor == 5
            a, b = sp.symbols("a b")
            ok = ok and cross_cartesian_vectors(Vector([a, 0, 0]), Vector([0, b, 0])).components[2] \
                == a * b
            res["cases"].append(("smoke:after-generation", "" if ok else
                "library results differ after documentation generation"))
            res["cases"] += role_checks(d1)
    finally:
        shutil.rmtree(tmp, ignore_errors=True)
    return res


def main(run: Run) -> int:
    if os.environ.get("C19_PASS"):
        r = package_pass(os.environ["C19_PASS_MODE"], run.thorough)
        with open(os.environ["C19_PASS"], "w") as f:
            json.dump(r, f)
        return 0
    # (b) in sub-processes (hash seeds), concurrently with (a)
    os.makedirs(os.environ.get("VERIF_SCRATCH_DIR") or os.path.join(ROOT, "scratch"), exist_ok=True)
    seeds = [0, 1, 2] if run.thorough else [0, 1]
    procs = []
    for s in seeds:
        outf = os.path.join(os.environ.get("VERIF_SCRATCH_DIR") or os.path.join(ROOT, "scratch"), f"c19_seed{s}.json")
        env = dict(os.environ, PYTHONHASHSEED=str(s), C19_PASS=outf, C19_PASS_MODE="main" if s == 0
            else "extra")
        procs.append((s, outf, subprocess.Popen([sys.executable, "-m", "vp.run", "C19", run.tier],
            env=env, cwd=ROOT, stdout=subprocess.PIPE, stderr=subprocess.STDOUT, text=True)))
    # (a) patcher bodies
    depth = 5 if run.thorough else 4
    bodies: list[tuple] = []
    for n in range(0, depth + 1):
        bodies.extend(itertools.product(KINDS, repeat=n))
    # statement positions matter to the patcher (it inserts nodes with a running offset), so every
    # small body is also explored behind a prefix of 1..24 neutral statements, and every pair of
    # documented members with 0..3 statements between them behind such a prefix
    pad_depth = 3 if run.thorough else 2
    small: list[tuple] = []
    for n in range(1, pad_depth + 1):
        small.extend(itertools.product(KINDS, repeat=n))
    for p in range(1, 25):
        for b in small:
            bodies.append(("ex", ) * p + b)
        for g in range(0, 4):
            for k1, k2 in itertools.product(("ss", "sl", "sb", "se"), repeat=2):
                bodies.append(("ex", ) * p + ("pa", k1) + ("pr", ) * g + ("pa", k2))
                bodies.append(("pa", "sp") * (p // 2) + ("pa", k1) + ("ex", ) * g + ("pa", k2, "ex"))
    bodies = rotate(bodies, run.seed * 101)
    size = max(200, len(bodies) // (NCPU * 8))
    for r in pmap(_bodies_work, [bodies[i:i + size] for i in range(0, len(bodies), size)],
        jobs=max(2, NCPU - len(seeds))):
        n = r.pop("n")
        run.evaluations += n
        r["n"] = 0
        run.absorb([r])
    # collect (b)
    digests: dict[str, dict] = {}
    for s, outf, p in procs:
        log, _ = p.communicate()
        if p.returncode != 0 or not os.path.exists(outf):
            run.violation(f"generation:seed{s}", f"documentation generation failed: {log[-600:]}",
                {"seed": s})
            continue
        with open(outf) as f:
            o = json.load(f)
        os.unlink(outf)
        for k, v in o["cases"]:
            run.case(f"seed{s}:{k}", outcome="page-check")
            run.states += 1
            run.transitions += 1
            if v:
                run.violation(k, v, {"package": True, "key": k, "seed": s})
        for name, dg in o["digests"].items():
            digests[f"seed{s}:{name}"] = dg
        run.traces += len(o["digests"])
    base = digests.get("seed0:walk")
    if base:
        run.note(pages=len(base))
        for name, dg in digests.items():
            if name == "seed0:walk":
                continue
            run.case(f"determinism:{name}", outcome="determinism")
            if name.endswith("reverse"):
                diff = [fn for fn in base if dg.get(fn) != base[fn] and not _is_package_page(fn)]
                missing = set(base) ^ set(dg)
            else:
                diff = [fn for fn in base if dg.get(fn) != base[fn]]
                missing = set(base) ^ set(dg)
            if diff or missing:
                run.violation(f"determinism:{name}", f"output differs from the first pass in "
                    f"{len(diff)} pages (e.g. {diff[:3]}), page sets differ by {sorted(missing)[:3]}",
                    {"package": True, "key": f"determinism:{name}"})
    run.note(patcher_depth=depth, padded_bodies="prefix of 1..24 neutral statements x bodies of <= "
        f"{pad_depth} statements, and pairs of documented members with gaps 0..3", statement_kinds=KINDS, generation_passes=sorted(digests))
    return run.finish(
        rule="(a) all module bodies of <= n statements over 11 statement kinds, each patched and "
        "executed for real with flag probes; (b) whole-package generation with a flag / canary "
        "check after every page, pass repeated in the same process, reversed directory order, fresh "
        "processes under other hash seeds; pages checked against the modules (one page per titled "
        "source, no placeholder left, formulas and symbol tables equal the module's own, roles "
        "resolve); distinct = bodies + page-level cases",
        exhaustive=True,
        assumptions=["statements between a member and its directive docstring, and documented defs "
            "designated by a directive docstring, are left open (shapes the catalogue never has)",
            "HTML building through Sphinx is not part of the property"])


def _is_package_page(fn: str) -> bool:
    stem = fn[:-4]
    return os.path.isdir(os.path.join(REPO + "/symplyphysics", stem.replace(".", os.sep)))


def replay(case: dict) -> list[str]:
    if "body" in case:
        return check_body(tuple(case["body"]))
    r = package_pass("main", False)
    return [f"{k}: {v}" for k, v in r["cases"] if v and k == case.get("key")]

"""C02, field laws: the catalogue modules whose law is stated over vector fields (Maxwell's
equations in differential form, circulation and flux) take callables / parametrised curves instead
of quantities, so the generic argument synthesiser of c02 cannot drive them.  Here they are driven
by hand-built fields: every field is a sum of at most two terms ``c * x^i y^j z^k t^l`` (all
monomials of degree <= 2 over the three coordinates and time, coefficient a Quantity of the
dimension that makes the component dimensionally right), in every component slot.

Reference: the law written in the module's header, evaluated with plain sympy differentiation /
integration on SI numbers (no symplyphysics code).  Forms of one law solved for different unknowns
are checked to be consistent with the same equation (mutual inverses).
"""
from __future__ import annotations

import itertools
from typing import Any, Callable

import mpmath
import sympy as sp

from .. import catalogue, dims, values
from ..harness import short

X, Y, Z, T = sp.symbols("X_ Y_ Z_ T_", real=True)
P1, P2 = sp.symbols("P1_ P2_", real=True)

# exponents (i, j, k, l) of x, y, z, t
MONOMIALS = [(0, 0, 0, 0)] + [e for e in itertools.product(range(3), repeat=4) if 1 <= sum(e) <= 2]
COEFFS = [sp.Rational(7, 3), sp.Rational(-5, 2), sp.Rational(11, 4), sp.Rational(13, 5),
    sp.Rational(-17, 6), sp.Rational(19, 7)]

MAXWELL = "symplyphysics.laws.electricity.maxwell_equations."
FIELDS = "symplyphysics.laws.fields."
MODULES = [
    MAXWELL + "curl_of_magnetic_field_is_conductivity_current_density_and_electric_induction_derivative",
    MAXWELL + "derivative_of_magnetic_induction_in_time_is_rotor_of_electric_intensity",
    MAXWELL + "charge_density_from_electric_induction_divergence",
    "symplyphysics.conditions.electricity.maxwell_equations.divergence_of_magnetic_induction_field_is_zero",
    FIELDS + "circulation_is_integral_along_curve",
    FIELDS + "flux_is_integral_across_curve",
    FIELDS + "flux_is_integral_across_surface",
    FIELDS + "circulation_is_integral_of_curl_over_surface",
]

Term = tuple  # (slot, monomial index, coefficient index)


def terms_menu(time_dep: bool, two_d: bool = False) -> list[tuple[int, int]]:
    out = []
    for slot in range(2 if two_d else 3):
        for mi, (i, j, k, l) in enumerate(MONOMIALS):
            if (l and not time_dep) or (two_d and k):
                continue
            out.append((slot, mi))
    return out


def field_descs(time_dep: bool, two_d: bool = False) -> list[tuple]:
    """all fields with one or two terms; coefficients assigned by position"""
    menu = terms_menu(time_dep, two_d)
    out: list[tuple] = [((s, m, 0), ) for s, m in menu]
    out += [((s1, m1, 1), (s2, m2, 2)) for (s1, m1), (s2, m2) in itertools.combinations(menu, 2)]
    return out


def single_descs(time_dep: bool) -> list[tuple]:
    return [((s, m, 3), ) for s, m in terms_menu(time_dep)]


def ref_components(desc: tuple) -> list[Any]:
    """SI-valued reference components over X, Y, Z, T"""
    comps = [sp.S.Zero] * 3
    for slot, mi, ci in desc:
        i, j, k, l = MONOMIALS[mi]
        comps[slot] += COEFFS[ci] * X**i * Y**j * Z**k * T**l
    return comps


def lib_field(desc: tuple, unit: Any, time_symbol: Any, spelling: int) -> Any:
    """the same field as a library VectorField: coefficient quantities carry the dimension"""
    from sympy.physics import units as U
    from symplyphysics import Quantity
    from symplyphysics.core.fields.vector_field import VectorField
    from symplyphysics.core.symbols.prefixes import prefixes

    def build(point: Any) -> list[Any]:
        comps: list[Any] = [0, 0, 0]
        for slot, mi, ci in desc:
            i, j, k, l = MONOMIALS[mi]
            c = COEFFS[ci]
            if spelling % 2 == 0:
                q = Quantity(c * unit / (U.meter**(i + j + k) * U.second**l))
            else:  # the same coefficient written per centimetre and per millisecond, in kilo-units
                q = Quantity(c * sp.Rational(1, 1000) * sp.Rational(1, 100)**(i + j + k) *
                    sp.Rational(1, 1000)**l * prefixes.kilo * unit / (U.centimeter**(i + j + k) *
                    (prefixes.milli * U.second)**l))
            comps[slot] = comps[slot] + q * point.x**i * point.y**j * point.z**k * time_symbol**l
        return comps

    return VectorField(build)


POINTS = [((sp.Rational(3, 7), sp.Rational(11, 5), sp.Rational(-13, 9)), sp.Rational(17, 11))]


def lib_point(pt: tuple, t: Any, spelling: int) -> tuple:
    from sympy.physics import units as U
    from symplyphysics import Quantity
    if spelling // 2 % 2 == 0:
        return tuple(Quantity(c * U.meter) for c in pt), Quantity(t * U.second)
    return tuple(Quantity(c * 100 * U.centimeter) for c in pt), Quantity(t / 60 * U.minute)


def at(e: Any, pt: tuple, t: Any) -> Any:
    return sp.sympify(e).xreplace({X: pt[0], Y: pt[1], Z: pt[2], T: t})


def curl(F: list[Any]) -> list[Any]:
    return [sp.diff(F[2], Y) - sp.diff(F[1], Z), sp.diff(F[0], Z) - sp.diff(F[2], X),
        sp.diff(F[1], X) - sp.diff(F[0], Y)]


def div(F: list[Any]) -> Any:
    return sp.diff(F[0], X) + sp.diff(F[1], Y) + sp.diff(F[2], Z)


def si_of(x: Any) -> Any:
    from sympy.physics.units import Quantity as SymQuantity
    if isinstance(x, SymQuantity):
        dv = dims.of_dimension(x.dimension)
        if isinstance(dv, dims.AnyDim):
            dv = dims.ONE
        return values.raw_to_si(x.scale_factor, dv)
    return values.mpc(sp.sympify(x))


def vec_si(v: Any) -> list[Any]:
    comps = list(v.components) + [0] * (3 - len(v.components))
    return [si_of(c) for c in comps]


def close_vec(got: list[Any], want: list[Any], extra_scale: Any = 0) -> bool:
    want = [values.mpc(w) for w in want]
    # extra_scale: magnitude of the terms the value was obtained from by subtraction (a difference
    # that should be zero carries their rounding)
    scale = max([abs(w) for w in want] + [abs(g) for g in got] + [mpmath.mpf(0), abs(values.mpc(
        extra_scale))])
    return all(values.close(g, w, 1e-12, max(mpmath.mpf("1e-300"), 1e-12 * scale)) for g, w in zip(
        got, want))


def field_at_point_si(field: Any, mod: Any, pt: tuple, t: Any) -> list[Any]:
    """SI components of a returned library VectorField at the point / time"""
    from symplyphysics import QuantityVector
    from sympy.physics import units as U
    from symplyphysics import Quantity
    p = tuple(Quantity(c * U.meter) for c in pt)
    v = field.apply(p)
    qv = QuantityVector.from_base_vector(v, subs={mod.time: Quantity(t * U.second)})
    return vec_si(qv)


def vector_at_point(vec: Any, mod: Any, pt: tuple, t: Any) -> Any:
    """a library Vector over base scalars and time -> QuantityVector at the point"""
    from symplyphysics import QuantityVector, Quantity
    from sympy.physics import units as U
    bs = vec.coordinate_system.coord_system.base_scalars()
    return QuantityVector.from_base_vector(vec, subs={bs[0]: Quantity(pt[0] * U.meter), bs[1]:
        Quantity(pt[1] * U.meter), bs[2]: Quantity(pt[2] * U.meter), mod.time: Quantity(t *
        U.second)})


# ---- per-module drivers: each returns [(key, violation text)] -------------------------------------

REFUSED = "\0refused"


def attempt(fn: Callable, *a: Any) -> Any:
    """the property speaks about calls that return: a refusal (any exception) is not judged"""
    try:
        return fn(*a)
    except Exception as ex:  # pylint: disable=broad-except
        return (REFUSED, f"{type(ex).__name__}: {short(ex, 80)}")


def refused(x: Any) -> bool:
    return isinstance(x, tuple) and len(x) == 2 and x[0] == REFUSED


def judge(out: list, key: str, got: Any, want: list[Any], text: Callable[[Any], str],
    extra_scale: Any = 0) -> None:
    if refused(got):
        out.append((key, REFUSED))
    else:
        out.append((key, "" if close_vec(got, want, extra_scale) else text(got)))



def N12(v: list[Any]) -> str:
    return short([sp.N(w, 12) for w in v])


def fmt(v: Any) -> str:
    try:
        return "[" + ", ".join(mpmath.nstr(x.real if hasattr(x, "real") else x, 12) for x in v) + "]"
    except Exception:  # pylint: disable=broad-except
        return short(v)


def ampere_cases(mod: Any, chunk: list[tuple]) -> list[tuple[str, str]]:
    """curl(H) = j + dD/dt"""
    from sympy.physics import units as U
    out: list[tuple[str, str]] = []
    hu, du = U.ampere / U.meter, U.coulomb / U.meter**2
    for n, (hd, dd) in chunk:
        sp_ = n % 4
        H, D = ref_components(hd), ref_components(dd)
        (pt, t), = POINTS
        cH = [at(c, pt, t) for c in curl(H)]
        dD = [at(sp.diff(c, T), pt, t) for c in D]
        want_j = [a - b for a, b in zip(cH, dD)]
        mag = max([abs(sp.N(v)) for v in cH + dD] + [0])
        key = f"ampere:H={hd}:D={dd}:spelling{sp_}"
        lH, lD = lib_field(hd, hu, mod.time, sp_), lib_field(dd, du, mod.time, sp_)
        lp, lt = lib_point(pt, t, sp_)
        got = attempt(lambda: vec_si(mod.calculate_conductivity_current_density_at_point(lH, lD, lp,
            lt)))
        judge(out, key + ":calculate", got, want_j, lambda g:
            f"calculate_conductivity_current_density_at_point = {fmt(g)}, law curl(H) - dD/dt = "
            f"{N12(want_j)}", mag)
        # the three solved forms of the one equation
        j_vec = attempt(lambda: mod.conductivity_current_density_vector_law(lH, lD))
        if refused(j_vec):
            out.append((key + ":j-form", REFUSED))
            continue
        got = attempt(lambda: vec_si(vector_at_point(j_vec, mod, pt, t)))
        judge(out, key + ":j-form", got, want_j, lambda g:
            f"conductivity_current_density_vector_law = {fmt(g)}, law gives {N12(want_j)}", mag)
        got = attempt(lambda: field_at_point_si(mod.magnetic_intensity_rotor_law(lD, j_vec), mod, pt,
            t))
        judge(out, key + ":rotor(j(H,D))", got, cH, lambda g:
            f"magnetic_intensity_rotor_law(D, j(H, D)) = {fmt(g)} but curl(H) = {N12(cH)}: the "
            "forms are not mutual inverses", mag)
        got = attempt(lambda: field_at_point_si(mod.electric_induction_time_derivative_law(lH,
            j_vec), mod, pt, t))
        judge(out, key + ":dDdt(j(H,D))", got, dD, lambda g:
            f"electric_induction_time_derivative_law(H, j(H, D)) = {fmt(g)} but dD/dt = {N12(dD)}:"
            " the forms are not mutual inverses", mag)
    return out


def faraday_cases(mod: Any, chunk: list[tuple]) -> list[tuple[str, str]]:
    """curl(E) = -dB/dt"""
    from sympy.physics import units as U
    out: list[tuple[str, str]] = []
    eu, bu = U.volt / U.meter, U.tesla
    for n, (fd, ) in chunk:
        sp_ = n % 4
        F = ref_components(fd)
        (pt, t), = POINTS
        key = f"faraday:F={fd}:spelling{sp_}"
        # F as the electric intensity: dB/dt = -curl(E)
        lE = lib_field(fd, eu, mod.time, sp_)
        lp, lt = lib_point(pt, t, sp_)
        want = [-at(c, pt, t) for c in curl(F)]
        got = attempt(lambda: vec_si(mod.calculate_magnetic_induction_derivative_at_point(lE, lp,
            lt)))
        k1 = f"faraday:calculate-dBdt:F={fd}:spelling{sp_}"
        if not refused(got) and not close_vec(got, want) and close_vec(got, [-w for w in want]):
            # exactly the negative of the law's value: kept apart from any other deviation
            k1 = f"faraday:calculate-dBdt:sign-reversed:F={fd}:spelling{sp_}"
        judge(out, k1, got, want, lambda g:
            f"calculate_magnetic_induction_derivative_at_point(E) = {fmt(g)}, law dB/dt = -curl(E)"
            f" = {N12(want)}")
        # F as the magnetic induction: curl(E) = -dB/dt
        lB = lib_field(fd, bu, mod.time, sp_)
        want2 = [-at(sp.diff(c, T), pt, t) for c in F]
        got = attempt(lambda: field_at_point_si(mod.electric_intensity_curl_law(lB), mod, pt, t))
        judge(out, key + ":curlE-form", got, want2, lambda g:
            f"electric_intensity_curl_law(B) = {fmt(g)}, law curl(E) = -dB/dt = {N12(want2)}")
    return out


def gauss_cases(mod: Any, chunk: list[tuple]) -> list[tuple[str, str]]:
    """div(D) = rho"""
    from sympy.physics import units as U
    out: list[tuple[str, str]] = []
    for n, (fd, ) in chunk:
        sp_ = n % 4
        F = ref_components(fd)
        (pt, t), = POINTS
        lp, _ = lib_point(pt, t, sp_)
        lD = lib_field(fd, U.coulomb / U.meter**2, sp.S.One, sp_)
        want = at(div(F), pt, t)
        got = attempt(lambda: [si_of(mod.calculate_charge_volumetric_density_at_point(lD, lp))])
        judge(out, f"gauss:D={fd}:spelling{sp_}", got, [want], lambda g:
            f"calculate_charge_volumetric_density_at_point = {fmt(g)}, law div(D) = {sp.N(want, 12)}")
    return out


def nodiv_cases(mod: Any, chunk: list[tuple]) -> list[tuple[str, str]]:
    """div(B) = 0 as a condition: true exactly for divergence-free fields"""
    from sympy.physics import units as U
    out: list[tuple[str, str]] = []
    for n, (fd, ) in chunk:
        F = ref_components(fd)
        want = sp.simplify(div(F)) == 0
        lB = lib_field(fd, U.tesla, sp.S.One, n % 2)
        got = attempt(lambda: mod.magnetic_field_divergence_condition(lB))
        if refused(got):
            # a divergence that still depends on the coordinates is not a quantity; nothing to judge
            out.append((f"divB:B={fd}", REFUSED))
            continue
        out.append((f"divB:B={fd}", "" if bool(got) == want else
            f"magnetic_field_divergence_condition = {short(got)}, div(B) = {div(F)}"))
    return out


# curves / surfaces for the integral laws: (name, coordinates over the parameters in metres,
# parameter limits in metres)
CURVES = [("line", [P1, 2 * P1, -P1 / 3], (sp.Rational(1, 2), 2)), ("parabola", [P1, P1**2, 0],
    (-1, sp.Rational(3, 2))), ("cubic", [P1**2, P1, P1**3 / 2], (0, sp.Rational(4, 3)))]
CURVES2D = [("line", [P1, 2 * P1], (sp.Rational(1, 2), 2)), ("parabola", [P1, P1**2], (-1,
    sp.Rational(3, 2))), ("cubic", [P1**2, P1**3 / 2], (sp.Rational(1, 3), sp.Rational(4, 3)))]
SURFACES = [("plane", [P1, P2, P1 / 2 - P2], (0, 1), (sp.Rational(1, 2), 2)), ("saddle", [P1, P2,
    P1 * P2], (-1, 1), (0, sp.Rational(3, 2))), ("sheet", [P1 + P2, P1 * P2, P2 - P1], (0,
    sp.Rational(1, 2)), (1, 2))]


def _lib_curve(coords: list[Any], mod: Any, unit_q: Any) -> list[Any]:
    """a trajectory whose parameters carry length: p -> p, p**2 -> p**2 / (1 m), ..."""
    ps = {}
    if hasattr(mod, "parameter"):
        ps[P1] = mod.parameter
    else:
        ps[P1], ps[P2] = mod.parameter1, mod.parameter2
    out = []
    for c in coords:
        c = sp.expand(sp.sympify(c))
        tot = sp.S.Zero
        for term in sp.Add.make_args(c):
            deg = sp.Poly(term, P1, P2).total_degree() if term.free_symbols else 0
            tot += term.xreplace(ps) / unit_q**(deg - 1) if deg != 1 else term.xreplace(ps)
        out.append(tot)
    return out


def _lim(l: tuple, spelling: int) -> tuple:
    from sympy.physics import units as U
    from symplyphysics import Quantity
    if spelling % 2 == 0:
        return tuple(Quantity(v * U.meter) for v in l)
    return tuple(Quantity(v * 100 * U.centimeter) for v in l)


def _on(F: list[Any], coords: list[Any]) -> list[Any]:
    c = list(coords) + [0] * (3 - len(coords))
    return [sp.sympify(f).xreplace({X: c[0], Y: c[1], Z: c[2]}) for f in F]


def integral_cases(mod: Any, kind: str, chunk: list[tuple]) -> list[tuple[str, str]]:
    from sympy.physics import units as U
    from symplyphysics import Quantity
    out = []
    one = Quantity(1 * U.meter)
    for n, (fd, ) in chunk:
        F = ref_components(fd)
        lF = lib_field(fd, U.newton, sp.S.One, n % 2)
        sp_ = (n // 2) % 2
        if kind == "circulation-curve":
            for cn, coords, lim in CURVES:
                Fc = _on(F, coords)
                want = sp.integrate(sum(f * sp.diff(c, P1) for f, c in zip(Fc, coords)), (P1, *lim))
                got = attempt(lambda: [si_of(mod.calculate_circulation(lF, _lib_curve(coords, mod,
                    one), _lim(lim, sp_)))])
                judge(out, f"circulation-curve:{cn}:F={fd}:spelling{sp_}", got, [want], lambda g:
                    f"calculate_circulation = {fmt(g)}, line integral = {sp.N(want, 12)}")
        elif kind == "flux-curve":
            if any(s == 2 for s, _, _ in fd):
                continue
            for cn, coords, lim in CURVES2D:
                Fc = _on(F, coords)
                want = sp.integrate(Fc[0] * sp.diff(coords[1], P1) - Fc[1] * sp.diff(coords[0], P1),
                    (P1, *lim))
                got = attempt(lambda: [si_of(mod.calculate_flux(lF, _lib_curve(coords, mod, one),
                    _lim(lim, sp_)))])
                judge(out, f"flux-curve:{cn}:F={fd}:spelling{sp_}", got, [want], lambda g:
                    f"calculate_flux = {fmt(g)}, integral of F.n ds = {sp.N(want, 12)}")
        else:
            for sn, coords, l1, l2 in SURFACES:
                ru = [sp.diff(c, P1) for c in coords]
                rv = [sp.diff(c, P2) for c in coords]
                nrm = [ru[1] * rv[2] - ru[2] * rv[1], ru[2] * rv[0] - ru[0] * rv[2], ru[0] * rv[1] -
                    ru[1] * rv[0]]
                G = curl(F) if kind == "circulation-surface" else F
                Gc = _on(G, coords)
                want = sp.integrate(sp.integrate(sum(g * m for g, m in zip(Gc, nrm)), (P1, *l1)), (P2,
                    *l2))
                fn = mod.calculate_circulation if kind == "circulation-surface" else mod.calculate_flux
                got = attempt(lambda: [si_of(fn(lF, _lib_curve(coords, mod, one), _lim(l1, sp_),
                    _lim(l2, sp_)))])
                judge(out, f"{kind}:{sn}:F={fd}:spelling{sp_}", got, [want], lambda g:
                    f"{fn.__name__} = {fmt(g)}, surface integral = {sp.N(want, 12)}")
    return out




def items(thorough: bool) -> list[tuple[str, list]]:
    """work items (module index, chunk of numbered field descriptions)"""
    out: list[tuple[str, list]] = []

    def chunks(mi: int, descs: list, size: int) -> None:
        numbered = list(enumerate(descs))
        for i in range(0, len(numbered), size):
            out.append((mi, numbered[i:i + size]))

    singles_t = single_descs(True)
    one_t = [d for d in field_descs(True) if len(d) == 1]
    two_t = field_descs(True)
    # Ampere: H x D, single terms each (all pairs); thorough adds two-term H against single-term D
    pairs = [(h, d) for h in one_t for d in singles_t]
    if thorough:
        pairs += [(h, d) for h in two_t if len(h) == 2 for d in singles_t[::7]]
    chunks(0, pairs, 60)
    chunks(1, [(f, ) for f in (two_t if thorough else one_t + two_t[len(one_t)::5])], 60)
    static = field_descs(False)
    one_s = [d for d in static if len(d) == 1]
    chunks(2, [(f, ) for f in static], 80)
    chunks(3, [(f, ) for f in static], 80)
    sub = static if thorough else one_s + static[len(one_s)::9]
    chunks(4, [(f, ) for f in sub], 20)
    chunks(5, [(f, ) for f in sub], 20)
    chunks(6, [(f, ) for f in sub], 10)
    chunks(7, [(f, ) for f in sub], 10)
    return out


def work(item: tuple) -> dict:
    mi, chunk = item
    modname = MODULES[mi]
    res: dict[str, Any] = {"n": 0, "keys": [], "outcomes": {}, "violations": [], "undecided": [],
        "samples": []}
    mod = catalogue.load(modname)
    kind = {4: "circulation-curve", 5: "flux-curve", 6: "flux-surface", 7: "circulation-surface"}
    for entry in chunk:
        if mi == 0:
            cases = ampere_cases(mod, [entry])
        elif mi == 1:
            cases = faraday_cases(mod, [entry])
        elif mi == 2:
            cases = gauss_cases(mod, [entry])
        elif mi == 3:
            cases = nodiv_cases(mod, [entry])
        else:
            cases = integral_cases(mod, kind[mi], [entry])
        for key, viol in cases:
            res["n"] += 1
            if viol == REFUSED:
                res["outcomes"]["field-law-refused"] = res["outcomes"].get("field-law-refused",
                    0) + 1
                continue
            res["keys"].append(key)
            res["outcomes"]["field-law"] = res["outcomes"].get("field-law", 0) + 1
            if viol:
                res["violations"].append((f"{modname}:{key}", viol, {"fields": True, "item": [mi,
                    [entry]], "key": key}))
            elif not res["samples"]:
                res["samples"].append(key)
    return res


def replay(case: dict) -> list[str]:
    def tup(x: Any) -> Any:
        return tuple(tup(i) for i in x) if isinstance(x, list) else x

    mi, chunk = case["item"]
    r = work((mi, [tup(c) for c in chunk]))
    return [f"{k}: {v}" for k, v, _ in r["violations"] if k.endswith(case["key"])]

"""C11 - changing coordinate system preserves the geometric vector and scalar field.

Both directions of the Cartesian-cylindrical and Cartesian-spherical pairs x lattice points of
each domain x component patterns (1..3 components); dot product / magnitude / scaling in the
curvilinear system against the Cartesian values of the re-expressed operands; scalar fields from
a monomial / radial basis at corresponding points; refusal matrix.
"""
from __future__ import annotations

import itertools
from typing import Any

import sympy as sp

from .. import vecref as R
from ..harness import Run, pmap, rotate, short

PROPERTY = "C11"
LEVEL = "exploration"

pi = sp.pi
CYL_POINTS = [(r, t, z) for r in (1, 2, sp.Rational(5, 3)) for t in (pi / 6, -pi / 6, 2 * pi / 3,
    -2 * pi / 3, pi / 2) for z in (-1, 2, 0)]
SPH_POINTS = [(r, t, p) for r in (1, 2, sp.Rational(5, 3)) for t in (pi / 6, -pi / 6, 2 * pi / 3,
    -2 * pi / 3) for p in (pi / 5, pi / 2, 3 * pi / 4)]
CART_POINTS = [(x, y, z) for x in (1, -1, 2) for y in (1, -2, 3) for z in (-1, 2, 0)]


def near(a: Any, b: Any) -> bool:
    try:
        d = sp.N(sp.sympify(a) - sp.sympify(b), 40)
        return bool(abs(d) < sp.Float("1e-25"))
    except TypeError:
        return False  # free symbols left in a value that should be a number


def vnear(a: Any, b: Any) -> bool:
    return all(near(x, y) for x, y in zip(R.pad(a), R.pad(b)))


def to_curv(system: str, p: tuple) -> tuple:
    """own inverse map Cartesian -> curvilinear (principal values)"""
    x, y, z = p
    if system == "cylindrical":
        return (sp.sqrt(x**2 + y**2), sp.atan2(y, x), z)
    r = sp.sqrt(x**2 + y**2 + z**2)
    return (r, sp.atan2(y, x), sp.acos(z / r))


def systems() -> dict:
    from symplyphysics import CoordinateSystem, coordinates_transform
    S = CoordinateSystem.System
    cart = CoordinateSystem(S.CARTESIAN)
    return {"cartesian": cart, "cylindrical": coordinates_transform(cart, S.CYLINDRICAL),
        "spherical": coordinates_transform(cart, S.SPHERICAL)}


def vector_cases(system: str) -> list[tuple[str, str]]:
    from symplyphysics import Vector, dot_vectors, vector_magnitude, scale_vector, vector_unit
    from symplyphysics.core.vectors.arithmetics import project_vector
    sy = systems()
    cart, curv = sy["cartesian"], sy[system]
    pts = CYL_POINTS if system == "cylindrical" else SPH_POINTS
    out = []
    k = sp.Rational(7, 3)
    # curvilinear -> Cartesian -> curvilinear
    for q in pts:
        for n in (1, 2, 3):
            comps = list(q[:n])
            full = tuple(comps) + (0, ) * (3 - n)
            if system == "spherical" and n < 3:
                continue  # a missing polar angle means phi = 0: the coordinate singularity
            tag = f"{system}->cartesian:{q}:{n}"
            V = Vector(comps, curv)
            C = V.rebase(cart)
            want = R.position(system, full)
            out.append((f"rebase:{tag}", "" if vnear(C.components, want) else
                f"{comps} in {system} re-expressed as {short(C.components)}, reference {short(want)}"))
            back = C.rebase(curv)
            out.append((f"roundtrip:{tag}", "" if vnear(back.components, full) else
                f"round trip of {comps} gives {short(back.components)}"))
            # scaling (positive, negative, and the magnitude / unit vector of the scaled vector)
            for kk in (k, -sp.Rational(5, 3)):
                W = scale_vector(kk, V)
                sc = W.rebase(cart)
                out.append((f"scale:{tag}:{kk}", "" if vnear(sc.components, R.scale(kk, want)) else
                    f"scaling {comps} by {kk} in {system} gives {short(sc.components)} in Cartesian, "
                    f"reference {short(R.scale(kk, want))}"))
                mw = vector_magnitude(W)
                out.append((f"scale-magnitude:{tag}:{kk}", "" if near(mw, abs(kk) * sp.sqrt(R.norm2(
                    want))) else f"magnitude of {comps} scaled by {kk} in {system} is "
                    f"{short(sp.N(mw, 10))}, Cartesian {sp.N(abs(kk) * sp.sqrt(R.norm2(want)), 10)}"))
                if n == 3:
                    u = vector_unit(W).rebase(cart)
                    wantu = R.scale(kk / (abs(kk) * sp.sqrt(R.norm2(want))), want)
                    out.append((f"scale-unit:{tag}:{kk}", "" if vnear(u.components, wantu) else
                        f"unit vector of {comps} scaled by {kk} in {system} is "
                        f"{short([sp.N(c, 8) for c in u.components])} in Cartesian, reference "
                        f"{short([sp.N(c, 8) for c in wantu])}"))
            mag = vector_magnitude(V)
            out.append((f"magnitude:{tag}", "" if near(mag, sp.sqrt(R.norm2(want))) else
                f"magnitude of {comps} in {system} is {short(mag)}, Cartesian {sp.sqrt(R.norm2(want))}"))
    for q1, q2 in itertools.islice(itertools.product(pts, pts), 0, None, 7):
        V1, V2 = Vector(list(q1), curv), Vector(list(q2), curv)
        d = dot_vectors(V1, V2)
        want = R.dot(R.position(system, q1), R.position(system, q2))
        out.append((f"dot:{system}:{q1}:{q2}", "" if near(d, want) else
            f"dot product of {q1} and {q2} in {system} is {short(sp.N(d, 12))}, Cartesian "
            f"{short(sp.N(want, 12))}"))
        # projection in the curvilinear system (acute and obtuse pairs): its Cartesian image is the
        # projection of the images, and its magnitude agrees
        P = project_vector(V1, V2)
        c1, c2 = R.position(system, q1), R.position(system, q2)
        wantp = R.scale(R.dot(c1, c2) / R.norm2(c2), c2)
        out.append((f"project:{system}:{q1}:{q2}", "" if vnear(P.rebase(cart).components, wantp) else
            f"projection of {q1} on {q2} in {system} is {short([sp.N(c, 8) for c in P.rebase(cart).components])}"
            f" in Cartesian, reference {short([sp.N(c, 8) for c in wantp])}"))
        out.append((f"project-magnitude:{system}:{q1}:{q2}", "" if near(vector_magnitude(P), sp.sqrt(
            R.norm2(wantp))) else f"magnitude of the projection of {q1} on {q2} in {system} is "
            f"{sp.N(vector_magnitude(P), 10)}, Cartesian {sp.N(sp.sqrt(R.norm2(wantp)), 10)}"))
        d2 = dot_vectors(V1.rebase(cart), V2.rebase(cart))
        out.append((f"dot-rebased:{system}:{q1}:{q2}", "" if near(d, d2) else
            f"dot product changes under re-expression: {short(sp.N(d, 12))} vs {short(sp.N(d2, 12))}"))
    # Cartesian -> curvilinear -> Cartesian
    for p in CART_POINTS:
        for n in (1, 2, 3):
            comps = list(p[:n])
            full = tuple(comps) + (0, ) * (3 - n)
            if system == "spherical" and n == 3 and False:
                pass
            if full[0] == 0 and full[1] == 0:
                continue
            tag = f"cartesian->{system}:{p}:{n}"
            V = Vector(comps, cart)
            Q = V.rebase(curv)
            want = to_curv(system, full)
            out.append((f"rebase:{tag}", "" if vnear(Q.components, want) else
                f"{comps} re-expressed in {system} as {short(Q.components)}, reference {short(want)}"))
            back = Q.rebase(cart)
            out.append((f"roundtrip:{tag}", "" if vnear(back.components, full) else
                f"round trip of {comps} gives {short(back.components)}"))
    # generic symbols
    x, y, z = sp.symbols("x y z", positive=True)
    V = Vector([x, y, z], cart)
    back = V.rebase(curv).rebase(cart)
    ok = all(sp.simplify(a - b) == 0 for a, b in zip(R.pad(back.components), (x, y, z)))
    if not ok:
        sub = {x: sp.Rational(3, 7), y: sp.Rational(11, 5), z: sp.Rational(13, 3)}
        ok = vnear([c.subs(sub) for c in back.components], [sub[x], sub[y], sub[z]])
    out.append((f"roundtrip-generic:cartesian->{system}", "" if ok else
        f"generic round trip gives {short(back.components)}"))
    return out


FIELDS = ["1", "x", "y", "z", "x**2", "x*y", "y*z", "x**2+y**2+z**2", "z/sqrt(x**2+y**2)",
    "x**2-y**2+3*z", "exp(-z)*x"]


def field_cases(system: str) -> list[tuple[str, str]]:
    from symplyphysics.core.fields.scalar_field import ScalarField
    from symplyphysics.core.points.cartesian_point import CartesianPoint
    from symplyphysics.core.points.cylinder_point import CylinderPoint
    from symplyphysics.core.points.sphere_point import SpherePoint
    sy = systems()
    cart, curv = sy["cartesian"], sy[system]
    PT = CylinderPoint if system == "cylindrical" else SpherePoint
    pts = CYL_POINTS if system == "cylindrical" else SPH_POINTS
    out = []
    X, Y, Z = cart.coord_system.base_scalars()
    Q1, Q2, Q3 = curv.coord_system.base_scalars()
    xs, ys, zs = sp.symbols("x y z")
    for ftxt in FIELDS:
        fx = sp.sympify(ftxt)
        f_cart = ScalarField.from_expression(fx.subs({xs: X, ys: Y, zs: Z}), cart)
        f_curv = f_cart.rebase(curv)
        for q in pts[::2]:
            p = R.position(system, q)
            a = f_cart(CartesianPoint(*p))
            b = f_curv(PT(*q))
            out.append((f"field:cartesian->{system}:{ftxt}:{q}", "" if near(a, b) else
                f"field {ftxt} takes {short(sp.N(a, 12))} at the Cartesian point but "
                f"{short(sp.N(b, 12))} at the same point in {system}"))
        # points given with fewer coordinates: the missing ones are zero
        for p2 in ((sp.Rational(3, 2), -2), (sp.Rational(-1, 3), ), (2, sp.Rational(5, 7))):
            full = tuple(p2) + (0, ) * (3 - len(p2))
            want = fx.subs({xs: full[0], ys: full[1], zs: full[2]}, simultaneous=True)
            try:
                a = f_cart(CartesianPoint(*p2))
            except Exception as ex:  # pylint: disable=broad-except
                a = sp.nan
            out.append((f"field-short-point:cartesian:{ftxt}:{p2}", "" if (a == want or near(a, want))
                else f"field {ftxt} at the point {p2} (missing coordinates zero) takes {short(a)}, "
                f"reference {short(want)}"))
            if system == "cylindrical" and len(p2) == 2 and p2[0] > 0:
                q2 = (p2[0], sp.pi / 5)
                pos = R.position(system, q2 + (0, ))
                want = fx.subs({xs: pos[0], ys: pos[1], zs: pos[2]}, simultaneous=True)
                try:
                    b = f_curv(PT(*q2))
                    ok = near(b, want)
                except Exception as ex:  # pylint: disable=broad-except
                    b, ok = f"{type(ex).__name__}", False
                out.append((f"field-short-point:{system}:{ftxt}:{q2}", "" if ok else
                    f"field {ftxt} re-expressed in {system} takes {short(b)} at the point {q2} "
                    f"(missing z zero), reference {short(sp.N(want, 12))}"))
        # and the other direction: a field written in curvilinear coordinates
        cp = R.position(system, (Q1, Q2, Q3))
        g_curv = ScalarField.from_expression(fx.subs({xs: cp[0], ys: cp[1], zs: cp[2]},
            simultaneous=True), curv)
        g_cart = g_curv.rebase(cart)
        for p in CART_POINTS[::3]:
            if p[0] == 0 and p[1] == 0:
                continue
            a = g_cart(CartesianPoint(*p))
            want = fx.subs({xs: p[0], ys: p[1], zs: p[2]})
            out.append((f"field:{system}->cartesian:{ftxt}:{p}", "" if near(a, want) else
                f"field {ftxt} written in {system} and re-expressed in Cartesian takes "
                f"{short(sp.N(a, 12))} at {p}, reference {short(sp.N(want, 12))}"))
    return out


# ---- rotated Cartesian frames: the Cartesian member of the pair need not be the parent ---------------

ANG = sp.atan(sp.Rational(3, 4))  # cos = 4/5, sin = 3/5: exact arithmetic


def _rot(axis: str, v: tuple) -> tuple:
    """components, in the frame rotated by ANG about `axis`, of the vector with parent components v"""
    c, s_ = sp.Rational(4, 5), sp.Rational(3, 5)
    x, y, z = v
    if axis == "k":
        return (c * x + s_ * y, -s_ * x + c * y, z)
    if axis == "i":
        return (x, c * y + s_ * z, -s_ * y + c * z)
    return (c * x - s_ * z, y, s_ * x + c * z)  # about j


def _unrot(axis: str, v: tuple) -> tuple:
    c, s_ = sp.Rational(4, 5), sp.Rational(3, 5)
    x, y, z = v
    if axis == "k":
        return (c * x - s_ * y, s_ * x + c * y, z)
    if axis == "i":
        return (x, c * y - s_ * z, s_ * y + c * z)
    return (c * x + s_ * z, y, -s_ * x + c * z)


def frame_cases(system: str) -> list[tuple[str, str]]:
    """cart (parent), rot = cart rotated about an axis, curv = curvilinear child of cart,
    curv2 = curvilinear child of rot.  Re-expression between any Cartesian and any curvilinear
    member preserves the geometric vector / the field value at the physical point."""
    from symplyphysics import Vector, CoordinateSystem, coordinates_transform, dot_vectors
    from symplyphysics.core.coordinate_systems.coordinate_systems import coordinates_rotate
    from symplyphysics.core.fields.scalar_field import ScalarField
    from symplyphysics.core.points.cartesian_point import CartesianPoint
    from symplyphysics.core.points.cylinder_point import CylinderPoint
    from symplyphysics.core.points.sphere_point import SpherePoint
    S = CoordinateSystem.System
    kind = S.CYLINDRICAL if system == "cylindrical" else S.SPHERICAL
    PT = CylinderPoint if system == "cylindrical" else SpherePoint
    pts = (CYL_POINTS if system == "cylindrical" else SPH_POINTS)[::4]
    out: list[tuple[str, str]] = []
    xs, ys, zs = sp.symbols("x y z")
    for axis in ("k", "i", "j"):
        cart = CoordinateSystem(S.CARTESIAN)
        ax = getattr(cart.coord_system, axis)
        rot = coordinates_rotate(cart, ANG, ax)
        curv = coordinates_transform(cart, kind)
        curv2 = coordinates_transform(rot, kind)
        # (source system, target system, map source components -> target components)
        for q in pts:
            pc = R.position(system, q)  # parent components of the point q given in curv
            pr = _unrot(axis, pc)  # ... of the point q given in curv2 (q in rot's frame)
            legs = [("curv->rot", curv, q, rot, _rot(axis, pc)),
                ("curv2->cart", curv2, q, cart, pr),
                ("curv2->rot", curv2, q, rot, pc),
                ("rot->curv", rot, _rot(axis, pc), curv, q),
                ("cart->curv2", cart, pr, curv2, q),
                ("rot->curv2", rot, pc, curv2, q)]
            for name, src, comps, dst, want in legs:
                tag = f"frame:{system}:{axis}:{name}:{q}"
                try:
                    got = Vector(list(comps), src).rebase(dst)
                except Exception as ex:  # pylint: disable=broad-except
                    out.append((tag, f"re-expression raised {type(ex).__name__}: {short(ex)}"))
                    continue
                ok = vnear(got.components, want)
                out.append((tag, "" if ok else
                    f"{short([sp.N(c, 8) for c in comps])} re-expressed as "
                    f"{short([sp.N(c, 8) for c in R.pad(got.components)])}, reference "
                    f"{short([sp.N(c, 8) for c in want])}"))
                if ok:
                    back = got.rebase(src)
                    out.append((tag + ":back", "" if vnear(back.components, comps) else
                        f"round trip gives {short([sp.N(c, 8) for c in R.pad(back.components)])} "
                        f"for {short([sp.N(c, 8) for c in comps])}"))
        # scalar fields: written in one member, read at the same physical point in another
        for ftxt in FIELDS[1:8]:
            fx = sp.sympify(ftxt)
            for name, src, dst in (("rot->curv", rot, curv), ("cart->curv2", cart, curv2),
                ("curv->rot", curv, rot), ("curv2->cart", curv2, cart)):
                b = src.coord_system.base_scalars()
                if src.coord_system_type == S.CARTESIAN:
                    expr = fx.subs({xs: b[0], ys: b[1], zs: b[2]}, simultaneous=True)
                else:
                    cp = R.position(system, tuple(b))
                    expr = fx.subs({xs: cp[0], ys: cp[1], zs: cp[2]}, simultaneous=True)
                tag = f"frame-field:{system}:{axis}:{name}:{ftxt}"
                try:
                    g = ScalarField.from_expression(expr, src).rebase(dst)
                except Exception as ex:  # pylint: disable=broad-except
                    out.append((tag, f"re-expression raised {type(ex).__name__}: {short(ex)}"))
                    continue
                for q in pts[::2]:
                    # q: curvilinear coordinates of the point in the curvilinear member's frame;
                    # Cartesian components in the frame of each member
                    loc = R.position(system, q)
                    if name == "rot->curv":  # curv lives in cart's frame; source frame is rot
                        src_xyz, at_dst = _rot(axis, loc), PT(*q)
                    elif name == "cart->curv2":  # curv2 lives in rot's frame; source frame cart
                        src_xyz, at_dst = _unrot(axis, loc), PT(*q)
                    elif name == "curv->rot":  # field given over curv (cart's frame), read in rot
                        src_xyz, at_dst = loc, CartesianPoint(*_rot(axis, loc))
                    else:  # curv2 (rot's frame) read in cart
                        src_xyz, at_dst = loc, CartesianPoint(*_unrot(axis, loc))
                    want = fx.subs({xs: src_xyz[0], ys: src_xyz[1], zs: src_xyz[2]},
                        simultaneous=True)
                    try:
                        a = g(at_dst)
                    except Exception as ex:  # pylint: disable=broad-except
                        out.append((f"{tag}:{q}", f"applying raised {type(ex).__name__}: {short(ex)}"))
                        continue
                    out.append((f"{tag}:{q}", "" if near(a, want) else
                        f"field {ftxt} re-expressed takes {short(sp.N(a, 12))} at the physical point, "
                        f"reference {short(sp.N(want, 12))}"))
        # frames whose ORIGIN is shifted (and turned too), given through the optional `inner`
        # argument: scalar fields only (a Vector holds free components, an origin means nothing
        # to it).  local = coordinates in the shifted frame; parent = shift + unrot(local).
        inner = cart.coord_system
        shift = (1, 2, 3)
        sv = shift[0] * inner.i + shift[1] * inner.j + shift[2] * inner.k
        variants = [("shift+turn", inner.orient_new_axis(f"ST{axis}", ANG, ax, location=sv),
            lambda v, axis=axis: tuple(a + b for a, b in zip(shift, _unrot(axis, v))))]
        if axis == "k":
            variants.append(("shift", inner.locate_new("SH", sv),
                lambda v: tuple(a + b for a, b in zip(shift, v))))
        for vname, fr, to_parent in variants:
            for tname, tsys, TP in (("cartesian", S.CARTESIAN, CartesianPoint), (system, kind, PT)):
                dst = CoordinateSystem(tsys, fr)
                for ftxt in FIELDS[1:8:2] + FIELDS[9:10]:
                    fx = sp.sympify(ftxt)
                    for direction in ("cart->", "->cart"):
                        tag = f"frame-field-origin:{system}:{axis}:{vname}:{direction}{tname}:{ftxt}"
                        if direction == "cart->":
                            b = inner.base_scalars()
                            expr = fx.subs({xs: b[0], ys: b[1], zs: b[2]}, simultaneous=True)
                            src, tgt = cart, dst
                        else:
                            b = fr.base_scalars()
                            cp = tuple(b) if tsys == S.CARTESIAN else R.position(system, tuple(b))
                            expr = fx.subs({xs: cp[0], ys: cp[1], zs: cp[2]}, simultaneous=True)
                            src, tgt = dst, cart
                        try:
                            g = ScalarField.from_expression(expr, src).rebase(tgt)
                        except Exception as ex:  # pylint: disable=broad-except
                            out.append((tag, f"re-expression raised {type(ex).__name__}: {short(ex)}"))
                            continue
                        for q in pts[::2]:
                            local = R.position(system, q)
                            parent = to_parent(local)
                            if direction == "cart->":
                                at = TP(*(local if tsys == S.CARTESIAN else q))
                                want_at = parent
                            else:
                                at = CartesianPoint(*parent)
                                want_at = local
                            want = fx.subs({xs: want_at[0], ys: want_at[1], zs: want_at[2]},
                                simultaneous=True)
                            try:
                                a = g(at)
                            except Exception as ex:  # pylint: disable=broad-except
                                out.append((f"{tag}:{q}", f"applying raised {type(ex).__name__}: "
                                    f"{short(ex)}"))
                                continue
                            out.append((f"{tag}:{q}", "" if near(a, want) else
                                f"field {ftxt} re-expressed over a frame with shifted origin takes "
                                f"{short(sp.N(a, 12))} at the physical point, reference "
                                f"{short(sp.N(want, 12))}"))
    return out


def point_style_cases() -> list[tuple[str, str]]:
    """the same physical points given by constructor arguments, by the named setters and by
    set_coordinate, with several points alive at the same time: a field and its re-expressed
    versions take the same value at the same physical point whatever way the points were built"""
    from symplyphysics.core.fields.scalar_field import ScalarField
    from symplyphysics.core.points.cartesian_point import CartesianPoint
    from symplyphysics.core.points.cylinder_point import CylinderPoint
    from symplyphysics.core.points.sphere_point import SpherePoint
    sy = systems()
    cart = sy["cartesian"]
    X, Y, Z = cart.coord_system.base_scalars()
    out = []
    fields = {"x*y+z": X * Y + Z, "x**2+y**2+z**2": X**2 + Y**2 + Z**2, "z-2*x": Z - 2 * X}

    def make(cls: Any, names: tuple, vals: tuple, style: str) -> Any:
        if style == "ctor":
            return cls(*vals)
        p = cls()
        if style == "setters":
            for n, v in zip(names, vals):
                setattr(p, n, v)
        else:
            for i in (2, 0, 1):  # any order
                p.set_coordinate(i, vals[i])
        return p

    for fname, fx in fields.items():
        f_cart = ScalarField.from_expression(fx, cart)
        f_cyl = f_cart.rebase(sy["cylindrical"])
        f_sph = f_cart.rebase(sy["spherical"])
        for qc in CYL_POINTS[::5]:
            p = R.position("cylindrical", qc)
            qs = to_curv("spherical", p)
            want = fx.subs({X: p[0], Y: p[1], Z: p[2]})
            for style in ("ctor", "setters", "set_coordinate"):
                # all three points exist before any field is evaluated
                pc = make(CartesianPoint, ("x", "y", "z"), p, style)
                pl = make(CylinderPoint, ("r", "theta", "z"), qc, style)
                ps = make(SpherePoint, ("r", "theta", "phi"), qs, style)
                fresh = CartesianPoint()
                vals = {"cartesian": f_cart(pc), "cylindrical": f_cyl(pl), "spherical": f_sph(ps)}
                for sysname, v in vals.items():
                    out.append((f"pointstyle:{style}:{fname}:{qc}:{sysname}", "" if near(v, want) else
                        f"field {fname} at the {sysname} point built by {style} is {sp.N(v, 10)}, "
                        f"reference {sp.N(want, 10)}"))
                origin = [fresh.coordinate(i) for i in range(3)]
                out.append((f"pointstyle:{style}:{fname}:{qc}:fresh", "" if all(c == 0 for c in
                    origin) else f"a fresh empty point has coordinates {origin}"))
                got = [pc.coordinate(i) for i in range(3)]
                out.append((f"pointstyle:{style}:{fname}:{qc}:readback", "" if vnear(got, p) else
                    f"Cartesian point built by {style} reads back {short(got)}, set to {short(p)}"))
    return out


def refusal_cases() -> list[tuple[str, str]]:
    from symplyphysics import Vector
    from symplyphysics.core.fields.scalar_field import ScalarField
    from symplyphysics.core.fields.vector_field import VectorField
    from symplyphysics.core.points.cartesian_point import CartesianPoint
    from symplyphysics.core.points.cylinder_point import CylinderPoint
    from symplyphysics.core.points.sphere_point import SpherePoint
    from symplyphysics.core.points.point import Point
    sy = systems()
    out = []
    for a, b in (("cylindrical", "spherical"), ("spherical", "cylindrical")):
        V = Vector([1, sp.pi / 6, 2] if a == "cylindrical" else [1, sp.pi / 6, sp.pi / 3], sy[a])
        try:
            got = V.rebase(sy[b])
            # answering is allowed only if the answer is right
            want = to_curv(b, R.position(a, V.components))
            ok = vnear(got.components, want)
            out.append((f"refuse:vector:{a}->{b}", "" if ok else
                f"direct {a}->{b} conversion answered wrongly: {short(got.components)}"))
        except (ValueError, TypeError):
            out.append((f"refuse:vector:{a}->{b}", ""))
        q = sy[a].coord_system.base_scalars()
        f = ScalarField.from_expression(q[0] * q[2], sy[a])
        try:
            g = f.rebase(sy[b])
            out.append((f"refuse:field:{a}->{b}", f"direct {a}->{b} field conversion was answered"))
        except (ValueError, TypeError):
            out.append((f"refuse:field:{a}->{b}", ""))
    # systems of different kinds built over one shared inner frame (optional constructor argument):
    # a mixed dot product / comparison must be refused, or else agree with the Cartesian value
    from symplyphysics import CoordinateSystem, dot_vectors
    from symplyphysics.core.vectors.arithmetics import equal_vectors
    S = CoordinateSystem.System
    inner = CoordinateSystem(S.CARTESIAN).coord_system
    shared = {"cartesian": CoordinateSystem(S.CARTESIAN, inner), "cylindrical": CoordinateSystem(
        S.CYLINDRICAL, inner), "spherical": CoordinateSystem(S.SPHERICAL, inner)}
    comps = {"cartesian": [1, 2, -1], "cylindrical": [2, sp.pi / 6, -1], "spherical": [2, sp.pi / 6,
        sp.pi / 3]}
    for a, b in itertools.permutations(shared, 2):
        Va, Vb = Vector(comps[a], shared[a]), Vector(comps[b], shared[b])
        want = R.dot(R.position(a, comps[a]), R.position(b, comps[b]))
        try:
            got = dot_vectors(Va, Vb)
            out.append((f"refuse:dot-shared-frame:{a}:{b}", "" if near(got, want) else
                f"dot product of a {a} and a {b} vector over one shared frame answered "
                f"{short(sp.N(got, 8))}, Cartesian value {short(sp.N(want, 8))}"))
        except (ValueError, TypeError):
            out.append((f"refuse:dot-shared-frame:{a}:{b}", ""))
        try:
            eq = equal_vectors(Vector(comps[a], shared[a]), Vector(comps[a], shared[b]))
            same_point = vnear(R.position(a, comps[a]), R.position(b, comps[a]))
            out.append((f"refuse:equal-shared-frame:{a}:{b}", "" if bool(eq) == same_point else
                f"a {a} and a {b} vector with the same component list compare as "
                f"{'equal' if eq else 'different'}"))
        except (ValueError, TypeError):
            out.append((f"refuse:equal-shared-frame:{a}:{b}", ""))
    kinds = {"cartesian": CartesianPoint, "cylindrical": CylinderPoint, "spherical": SpherePoint}
    # a user's subclass of a point class is still a point of that kind
    for base_name, base_cls in list(kinds.items()):
        kinds[base_name + "-subclass"] = type("Labelled" + base_cls.__name__, (base_cls, ), {})
    for sname, cs in sy.items():
        q = cs.coord_system.base_scalars()
        f = ScalarField.from_expression(q[0] + 2 * q[1] + 3 * q[2], cs)
        vf = VectorField.from_vector(Vector([q[0], q[1], q[2]], cs))
        for pname, PT in kinds.items():
            for what, fld in (("scalar", f), ("vector", vf)):
                try:
                    fld(PT(1, 2, 3))
                    got = "accepted"
                except ValueError:
                    got = "refused"
                want = "accepted" if pname.split("-")[0] == sname else "refused"
                out.append((f"pointkind:{what}:{sname}:{pname}", "" if got == want else
                    f"{what} field in {sname} coordinates {got} a {pname} point"))
        # the generic Point is accepted everywhere and means 'coordinates of this system'
        v = f(Point(1, 2, 3))
        out.append((f"pointkind:generic:{sname}", "" if near(v, 14) else
            f"generic point evaluates to {v}"))
    return out


def _work(item: tuple) -> dict:
    kind, payload = item
    cases = (vector_cases(payload) if kind == "vector" else field_cases(payload) if kind == "field"
        else frame_cases(payload) if kind == "frame" else point_style_cases() if kind == "pointstyle" else refusal_cases())
    res: dict[str, Any] = {"n": len(cases), "keys": [k for k, _ in cases], "outcomes": {},
        "violations": [], "samples": [cases[len(cases) // 2][0]] if cases else []}
    for k, v in cases:
        res["outcomes"]["holds" if not v else "fails"] = res["outcomes"].get("holds" if not v else
            "fails", 0) + 1
        if v:
            res["violations"].append((k, v, {"item": [kind, payload], "key": k}))
    return res


def main(run: Run) -> int:
    items = [("vector", "cylindrical"), ("vector", "spherical"), ("field", "cylindrical"),
        ("field", "spherical"), ("refusal", None), ("pointstyle", None), ("frame", "cylindrical"),
        ("frame", "spherical")]
    for r in pmap(_work, rotate(items, run.seed)):
        n = r.pop("n")
        run.evaluations += n
        r["n"] = 0
        run.absorb([r])
    return run.finish(
        rule="both directions of Cartesian<->cylindrical and Cartesian<->spherical x lattice points "
        "of each domain x 1..3 components; dot / magnitude / scale against Cartesian values; 11 "
        "scalar fields x points in both directions; the same between a Cartesian frame rotated about "
        "each axis (and curvilinear systems derived from it) and the parent's systems; scalar fields between the parent and Cartesian / curvilinear systems over a frame with shifted (and turned) origin, both directions; refusal matrix (direct cylindrical<->spherical, "
        "3 systems x 3 point kinds x 2 field kinds)",
        exhaustive=True,
        assumptions=["points away from the coordinate singularities", "values compared at 40 digits, "
            "1e-25 absolute", "vector components are position coordinates (the library's documented "
            "semantics of Vector)"])


def replay(case: dict) -> list[str]:
    kind, payload = case["item"]
    r = _work((kind, payload))
    return [f"{k}: {w}" for k, w, _ in r["violations"] if k == case["key"]]

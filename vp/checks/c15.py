"""C15 - experimental coordinate conversions are consistent and geometry-preserving.

All 6 ordered pairs and all 6 ordered triples of the three systems x lattice points of each
domain: scalar round trips, orthonormality / determinant / inverse / composition of the base-vector
maps, convert_point and convert_vector against an own Cartesian position map and local frames, Lame
coefficients against |d position / d q_i|.
"""
from __future__ import annotations

import itertools
from typing import Any

import sympy as sp

from ..harness import Run, pmap, rotate, short

PROPERTY = "C15"
LEVEL = "exploration"

pi = sp.pi
POINTS = {
    "cartesian": [(x, y, z) for x in (1, -2) for y in (2, -1, sp.Rational(1, 3)) for z in (-1, 2)],
    "cylindrical": [(r, p, z) for r in (1, 2) for p in (pi / 6, -pi / 6, 2 * pi / 3, -2 * pi / 3)
    for z in (-1, 2)],
    "spherical": [(r, t, p) for r in (1, 2) for t in (pi / 5, 3 * pi / 4, pi / 2) for p in (pi / 6,
    -pi / 6, 2 * pi / 3, -2 * pi / 3)],
}
NAMES = ("cartesian", "cylindrical", "spherical")


def systems() -> dict:
    from symplyphysics.core.experimental.coordinate_systems import (CartesianCoordinateSystem,
        CylindricalCoordinateSystem, SphericalCoordinateSystem)
    return {"cartesian": CartesianCoordinateSystem(), "cylindrical": CylindricalCoordinateSystem(),
        "spherical": SphericalCoordinateSystem()}


def position(name: str, q: tuple) -> tuple:
    a, b, c = q
    if name == "cartesian":
        return (a, b, c)
    if name == "cylindrical":
        return (a * sp.cos(b), a * sp.sin(b), c)
    return (a * sp.sin(b) * sp.cos(c), a * sp.sin(b) * sp.sin(c), a * sp.cos(b))


def coords_of(name: str, p: tuple) -> tuple:
    """own inverse of the position map (principal values)"""
    x, y, z = p
    if name == "cartesian":
        return p
    if name == "cylindrical":
        return (sp.sqrt(x**2 + y**2), sp.atan2(y, x), z)
    r = sp.sqrt(x**2 + y**2 + z**2)
    return (r, sp.acos(z / r), sp.atan2(y, x))


def frame(name: str, q: tuple) -> list[tuple]:
    s = sp.symbols("s1:4", real=True)
    pos = position(name, s)
    es = []
    for sj in s:
        d = [sp.diff(c, sj) for c in pos]
        d = [c.subs(dict(zip(s, q))) for c in d]
        h = sp.sqrt(sum(c**2 for c in d))
        es.append(tuple(c / h for c in d))
    return es


def near(a: Any, b: Any) -> bool:
    try:
        return bool(abs(sp.N(sp.sympify(a) - sp.sympify(b), 40)) < sp.Float("1e-25"))
    except TypeError:
        return False


def matrix(mapping: dict, old_vecs: tuple, new_vecs: tuple, subs: dict) -> sp.Matrix:
    rows = []
    for ov in old_vecs:
        e = sp.expand(mapping.get(ov, ov))  # an absent vector is left as it is
        row = []
        rest = e
        for nv in new_vecs:
            c = e.coeff(nv)
            row.append(c.subs(subs))
            rest = rest - c * nv
        if sp.expand(rest) != 0:
            raise ValueError(f"{ov} is not a combination of the new base vectors: {mapping.get(ov, ov)}")
        rows.append(row)
    return sp.Matrix(rows)


def mnear(A: sp.Matrix, B: sp.Matrix) -> bool:
    return all(near(a, b) for a, b in zip(A, B))


def pair_cases(an: str, bn: str, variant: str = "") -> list[tuple[str, str]]:
    from symplyphysics.core.experimental.coordinate_systems import (express_base_scalars,
        express_base_vectors, convert_point, convert_vector)
    from symplyphysics.core.experimental.points import AppliedPoint
    sy = systems()
    A, B = sy[an], sy[bn]
    if an == bn:
        B = type(A)()  # a second instance of the same type: trivial renaming
    # systems built with the optional constructor arguments: the second one on the base vectors
    # (or on the base scalars) of another instance; both are still two systems
    if variant == "shared-vectors":
        B = type(B)(base_vectors=(A if an == bn else type(B)()).args[1])
    elif variant == "shared-scalars":
        B = type(B)(base_scalars=(A if an == bn else type(B)()).base_scalars)
    elif variant == "function-vectors":
        # base vectors given by the caller as vector functions of the point (allowed for every kind)
        from symplyphysics.core.experimental.vectors import VectorFunction
        B = type(B)(base_vectors=[VectorFunction(f"g_{i}", nargs=1) for i in (1, 2, 3)])
    if variant:
        bn_tag = f"{bn}[{variant}]"
        return [(k.replace(f"{an}->{bn}:", f"{an}->{bn_tag}:"), v) for k, v in _pair_cases(an, bn, A,
            B)]
    return _pair_cases(an, bn, A, B)


def _pair_cases(an: str, bn: str, A: Any, B: Any) -> list[tuple[str, str]]:
    from symplyphysics.core.experimental.coordinate_systems import (express_base_scalars,
        express_base_vectors, convert_point, convert_vector)
    from symplyphysics.core.experimental.points import AppliedPoint
    out = []
    ab = express_base_scalars(A, B)  # A scalars in terms of B scalars
    ba = express_base_scalars(B, A)
    for qa in POINTS[an]:
        tag = f"{an}->{bn}:{qa}"
        p = position(an, qa)
        qb = coords_of(bn, p)
        subA, subB = dict(zip(A.base_scalars, qa)), dict(zip(B.base_scalars, qb))
        # scalars: A -> B -> A is the identity on A's domain
        back = [ab[s].subs(ba, simultaneous=True).subs(subA) for s in A.base_scalars]
        out.append((f"scalars-roundtrip:{tag}", "" if all(near(x, y) for x, y in zip(back, qa)) else
            f"A->B->A maps {qa} to {short([sp.N(x, 8) for x in back])}"))
        # scalars agree with the geometry
        got = [ab[s].subs(subB) for s in A.base_scalars]
        out.append((f"scalars-geometry:{tag}", "" if all(near(x, y) for x, y in zip(got, qa)) else
            f"{an} scalars of the point with {bn} coordinates {short(qb)} come out as "
            f"{short([sp.N(x, 8) for x in got])}, reference {qa}"))
        # base vectors: orthonormal rotation, inverse = reverse conversion
        PA, PB = AppliedPoint(qa, A), AppliedPoint(qb, B)
        vab = express_base_vectors(A, B, old_args=(PA, ), new_args=(PB, ))
        vba = express_base_vectors(B, A, old_args=(PB, ), new_args=(PA, ))
        try:
            M = matrix(vab, A.base_vectors(PA), B.base_vectors(PB), {**subB, **subA})
            Mr = matrix(vba, B.base_vectors(PB), A.base_vectors(PA), {**subA, **subB})
        except ValueError as ex:
            out.append((f"vectors-linear:{tag}", str(ex)))
            continue
        out.append((f"vectors-orthonormal:{tag}", "" if mnear(M * M.T, sp.eye(3)) else
            f"base-vector map is not orthonormal at {qa}: M*M^T = {short((M * M.T).evalf(6))}"))
        out.append((f"vectors-det:{tag}", "" if near(M.det(), 1) else
            f"determinant of the base-vector map at {qa} is {sp.N(M.det(), 8)}"))
        out.append((f"vectors-inverse:{tag}", "" if mnear(M * Mr, sp.eye(3)) else
            f"reverse conversion is not the inverse at {qa}"))
        # ... and agrees with the local frames: row j of M = components of e^A_j in the B frame
        fa, fb = frame(an, qa), frame(bn, qb)
        want = sp.Matrix(3, 3, lambda j, k: sum(fa[j][i] * fb[k][i] for i in range(3)))
        out.append((f"vectors-geometry:{tag}", "" if mnear(M, want) else
            f"base-vector map at {qa} differs from the geometric rotation: {short(M.evalf(6))} vs "
            f"{short(want.evalf(6))}"))
        # convert_point keeps the Cartesian position
        P = AppliedPoint(qa, A)
        Pb = convert_point(P, B)
        got_b = tuple(Pb.coordinates[s] for s in B.base_scalars)
        out.append((f"point:{tag}", "" if all(near(x, y) for x, y in zip(position(bn, got_b), p))
            else f"converted point {short(got_b)} is at {short([sp.N(c, 8) for c in position(bn, got_b)])}, "
            f"original at {short([sp.N(c, 8) for c in p])}"))
        # vectors in which base vectors occur inside products (cross product, dot-product
        # coefficient, norm): the geometric vector is still the same after conversion
        from symplyphysics.core.experimental.vectors import VectorCross, VectorDot, VectorNorm
        from . import c14
        va0 = A.base_vectors(P)
        shapes = {
            "e1+cross(e3,e1)": 2 * va0[0] + 3 * VectorCross(va0[2], va0[0]),
            "dot(e1,2e1+e3)*e2": VectorDot(va0[0], 2 * va0[0] + va0[2]) * va0[1],
            "cross(e1,e2)-e3/2": VectorCross(va0[0], va0[1]) - va0[2] / 2,
            "norm(e1+e2)*e3": VectorNorm(va0[0] + va0[1]) * va0[2],
        }
        nbv = B.base_vectors(Pb)
        comp_a = {e: fa[j] for j, e in enumerate(va0)}
        comp_b = {e: fb[j] for j, e in enumerate(nbv)}
        for sname, vexpr in shapes.items():
            try:
                want_c = c14.lib_eval(vexpr, comp_a)
                conv = convert_vector(vexpr, P, B)
                got_c = c14.lib_eval(conv, {**comp_b, **comp_a})
                leftovers = [e for e in va0 if an != bn and sp.sympify(conv).has(e)]
                ok = isinstance(got_c, tuple) and all(near(x, y) for x, y in zip(got_c, want_c)) \
                    and not leftovers
                msg = "" if ok else (f"{sname} at {qa} converted to {short(conv, 120)}: Cartesian "
                    f"components {short([sp.N(c, 8) for c in got_c]) if isinstance(got_c, tuple) else got_c}"
                    f" vs {short([sp.N(c, 8) for c in want_c])}" + (f"; base vectors of the old "
                    f"system left: {leftovers}" if leftovers else ""))
            except Exception as ex:
                msg = f"{sname}: {type(ex).__name__}: {short(ex)}"
            out.append((f"vector-nested:{tag}:{sname}", msg))
        # convert_vector keeps the Cartesian components
        coeffs = (sp.Rational(3, 7), sp.Rational(-11, 5), sp.Rational(13, 3))
        for cs_ in (coeffs, (1, 0, 0), (0, 1, 0), (0, 0, 1)):
            va = A.base_vectors(P)
            v = sum(c * e for c, e in zip(cs_, va))
            try:
                vb = convert_vector(v, P, B)
            except Exception as ex:
                out.append((f"vector:{tag}:{cs_}", f"convert_vector raised {type(ex).__name__}: "
                    f"{short(ex)}"))
                continue
            nb = B.base_vectors(Pb)
            ev = sp.expand(vb)
            comps_b = [ev.coeff(e) for e in nb]
            rest = sp.expand(ev - sum(c * e for c, e in zip(comps_b, nb)))
            cart_a = [sum(cs_[j] * fa[j][i] for j in range(3)) for i in range(3)]
            cart_b = [sum(comps_b[k] * fb[k][i] for k in range(3)) for i in range(3)]
            ok = rest == 0 and all(near(x, y) for x, y in zip(cart_a, cart_b))
            out.append((f"vector:{tag}:{cs_}", "" if ok else
                f"vector {cs_} at {qa} converted to {short(vb, 120)}: Cartesian components "
                f"{short([sp.N(c, 8) for c in cart_b])} vs {short([sp.N(c, 8) for c in cart_a])}"))
    return out


def triple_cases(an: str, bn: str, cn: str) -> list[tuple[str, str]]:
    from symplyphysics.core.experimental.coordinate_systems import (express_base_scalars,
        express_base_vectors)
    from symplyphysics.core.experimental.points import AppliedPoint
    sy = systems()
    A, B, C = sy[an], sy[bn], sy[cn]
    out = []
    ac, ab, bc = express_base_scalars(A, C), express_base_scalars(A, B), express_base_scalars(B, C)
    for qa in POINTS[an][::2]:
        p = position(an, qa)
        qb, qc = coords_of(bn, p), coords_of(cn, p)
        sub = {**dict(zip(A.base_scalars, qa)), **dict(zip(B.base_scalars, qb)), **dict(zip(
            C.base_scalars, qc))}
        tag = f"{an}->{bn}->{cn}:{qa}"
        direct = [ac[s].subs(sub) for s in A.base_scalars]
        via = [ab[s].subs(bc, simultaneous=True).subs(sub) for s in A.base_scalars]
        out.append((f"scalars-compose:{tag}", "" if all(near(x, y) for x, y in zip(direct, via)) else
            f"direct {short([sp.N(x, 8) for x in direct])} vs via {bn} "
            f"{short([sp.N(x, 8) for x in via])}"))
        PA, PB, PC = AppliedPoint(qa, A), AppliedPoint(qb, B), AppliedPoint(qc, C)
        vac = express_base_vectors(A, C, old_args=(PA, ), new_args=(PC, ))
        vab = express_base_vectors(A, B, old_args=(PA, ), new_args=(PB, ))
        vbc = express_base_vectors(B, C, old_args=(PB, ), new_args=(PC, ))
        try:
            MAC = matrix(vac, A.base_vectors(PA), C.base_vectors(PC), sub)
            MAB = matrix(vab, A.base_vectors(PA), B.base_vectors(PB), sub)
            MBC = matrix(vbc, B.base_vectors(PB), C.base_vectors(PC), sub)
        except ValueError as ex:
            out.append((f"vectors-compose:{tag}", str(ex)))
            continue
        out.append((f"vectors-compose:{tag}", "" if mnear(MAC, MAB * MBC) else
            f"direct base-vector conversion differs from the one via {bn} at {qa}"))
    return out


def history_cases(an: str, bn: str) -> list[tuple[str, str]]:
    """one point object converted again and again: into two instances of the target type, back
    into the first, into the third type and back - every conversion must answer for the system
    instance it was asked for, whatever was converted before"""
    from symplyphysics.core.experimental.coordinate_systems import convert_point, convert_vector
    from symplyphysics.core.experimental.points import AppliedPoint
    sy = systems()
    A = sy[an]
    other = [n for n in NAMES if n not in (an, bn)]
    out = []
    coeffs = (sp.Rational(3, 7), sp.Rational(-11, 5), sp.Rational(13, 3))
    for qa in POINTS[an][::3]:
        P = AppliedPoint(qa, A)
        p = position(an, qa)
        fa = frame(an, qa)
        targets = [(bn, type(sy[bn])()), (bn, type(sy[bn])())]
        targets.append(targets[0])
        if other:
            targets.append((other[0], sy[other[0]]))
        targets.append(targets[1])
        for vfirst in (False, True):  # the vector before the point, or the point first
            for step, (tn, T) in enumerate(targets):
                tag = f"history:{an}->{bn}:{qa}:{'vector-first' if vfirst else 'point-first'}:{step}"
                try:
                    va = A.base_vectors(P)
                    v = sum(c * e for c, e in zip(coeffs, va))
                    if vfirst:
                        vb = convert_vector(v, P, T)
                        Pt = convert_point(P, T)
                    else:
                        Pt = convert_point(P, T)
                        vb = convert_vector(v, P, T)
                except Exception as ex:  # pylint: disable=broad-except
                    out.append((tag, f"conversion raised {type(ex).__name__}: {short(ex)}"))
                    continue
                if Pt.system is not T or set(Pt.coordinates) != set(T.base_scalars):
                    out.append((tag, f"converted point does not belong to the requested {tn} system "
                        "instance"))
                    continue
                got = tuple(Pt.coordinates[s_] for s_ in T.base_scalars)
                if not all(near(x, y) for x, y in zip(position(tn, got), p)):
                    out.append((tag, f"converted point {short(got)} is not at the original position"))
                    continue
                fb = frame(tn, coords_of(tn, p))
                nb = T.base_vectors(Pt)
                ev = sp.expand(vb)
                comps_b = [ev.coeff(e) for e in nb]
                rest = sp.expand(ev - sum(c * e for c, e in zip(comps_b, nb)))
                cart_a = [sum(coeffs[j] * fa[j][i] for j in range(3)) for i in range(3)]
                cart_b = [sum(comps_b[k] * fb[k][i] for k in range(3)) for i in range(3)]
                try:
                    ok = rest == 0 and all(near(x, y) for x, y in zip(cart_a, cart_b))
                except TypeError:
                    ok = False  # free symbols of another instance left in the components
                out.append((tag, "" if ok else
                    f"step {step} (into {tn}): vector converted to {short(vb, 120)}, which is not "
                    f"the original vector over the base vectors of the requested system"))
    return out


KINDS = {"cartesian": "LLL", "cylindrical": "LAL", "spherical": "LAA"}


def shared_symbol_cases(an: str, bn: str) -> list[tuple[str, str]]:
    """the two systems share some base-scalar *symbols* (a user naming the radial coordinate of the
    cylindrical and of the spherical system with one symbol, which the constructors allow): every
    injective assignment of A's scalars to B's slots of the same kind (length / angle).  The shared
    symbol has different values in the two systems; point and vector conversion still keep the
    position and the Cartesian components."""
    from symplyphysics.core.experimental.coordinate_systems import convert_point, convert_vector
    from symplyphysics.core.experimental.points import AppliedPoint
    sy = systems()
    A = sy[an]
    own = sy[bn].base_scalars
    out = []
    options = []
    for j in range(3):
        options.append([None] + [i for i in range(3) if KINDS[an][i] == KINDS[bn][j]])
    coeffs = (sp.Rational(3, 7), sp.Rational(-11, 5), sp.Rational(13, 3))
    for choice in itertools.product(*options):
        used = [c for c in choice if c is not None]
        if not used or len(set(used)) != len(used):
            continue
        if an == bn and all(c == j for j, c in enumerate(choice)):
            continue  # the same scalars in the same places: covered by the shared-scalars variant
        scal = tuple(own[j] if c is None else A.base_scalars[c] for j, c in enumerate(choice))
        label = "".join("-" if c is None else str(c) for c in choice)
        try:
            B = type(sy[bn])(base_scalars=scal)
        except Exception as ex:  # pylint: disable=broad-except
            out.append((f"shared-symbols:{an}->{bn}:{label}", ""))  # refusal is a fair answer
            continue
        for qa in POINTS[an][::3]:
            tag = f"shared-symbols:{an}->{bn}:{label}:{qa}"
            pos = position(an, qa)
            try:
                P = AppliedPoint(qa, A)
                Pb = convert_point(P, B)
                got_b = tuple(Pb.coordinates[s_] for s_ in B.base_scalars)
                if not all(near(x, y) for x, y in zip(position(bn, got_b), pos)):
                    out.append((tag, f"converted point {short(got_b)} is not at the original position"))
                    continue
                fa, fb = frame(an, qa), frame(bn, coords_of(bn, pos))
                nb = B.base_vectors(Pb)
                msg = ""
                for cs_ in (coeffs, (1, 0, 0), (0, 1, 0), (0, 0, 1)):
                    v = sum(c * e for c, e in zip(cs_, A.base_vectors(P)))
                    ev = sp.expand(convert_vector(v, P, B))
                    comps_b = [ev.coeff(e) for e in nb]
                    rest = sp.expand(ev - sum(c * e for c, e in zip(comps_b, nb)))
                    cart_a = [sum(cs_[j] * fa[j][i] for j in range(3)) for i in range(3)]
                    cart_b = [sum(comps_b[k] * fb[k][i] for k in range(3)) for i in range(3)]
                    try:
                        ok = rest == 0 and all(near(x, y) for x, y in zip(cart_a, cart_b))
                    except TypeError:
                        ok = False
                    if not ok:
                        msg = (f"vector {cs_} at {qa} converted to {short(ev, 120)}: Cartesian "
                            f"components differ from {short([sp.N(c, 8) for c in cart_a])}")
                        break
                out.append((tag, msg))
            except ValueError:
                # symbols shared across slots make the point's coordinate mapping collide; the
                # library refuses ("The point must have all 3 coordinates defined"): a fair answer
                out.append((tag, ""))
            except Exception as ex:  # pylint: disable=broad-except
                out.append((tag, f"conversion raised {type(ex).__name__}: {short(ex)}"))
    return out


def axis_frame(name: str, q: tuple) -> list[tuple]:
    """local frame as the limit of the unit vectors (on the polar axis the derivative of the
    position with respect to the azimuth vanishes, the unit vector does not)"""
    a, b, c = q
    if name == "cylindrical":  # (rho, phi, z)
        return [(sp.cos(b), sp.sin(b), 0), (-sp.sin(b), sp.cos(b), 0), (0, 0, 1)]
    # spherical (r, theta polar, phi azimuth)
    return [(sp.sin(b) * sp.cos(c), sp.sin(b) * sp.sin(c), sp.cos(b)), (sp.cos(b) * sp.cos(c),
        sp.cos(b) * sp.sin(c), -sp.sin(b)), (-sp.sin(c), sp.cos(c), 0)]


def axis_cases() -> list[tuple[str, str]]:
    """points exactly on the polar axis, given with an azimuth, in the one pair that is regular
    there (cylindrical <-> spherical): the azimuth still orients the local frame"""
    from symplyphysics.core.experimental.coordinate_systems import convert_point, convert_vector
    from symplyphysics.core.experimental.points import AppliedPoint
    sy = systems()
    cyl, sph = sy["cylindrical"], sy["spherical"]
    out = []
    coeffs = (2, 3, 5)
    for phi in (pi / 3, -2 * pi / 3):
        for zz in (2, -1):
            cases = [("cylindrical", cyl, (0, phi, zz), "spherical", sph, (abs(zz), 0 if zz > 0 else
                pi, phi)), ("spherical", sph, (abs(zz), 0 if zz > 0 else pi, phi), "cylindrical", cyl,
                (0, phi, zz))]
            for an, A, qa, bn, B, qb in cases:
                tag = f"axis:{an}->{bn}:{qa}"
                try:
                    P = AppliedPoint(qa, A)
                    stored = tuple(P.coordinates[s_] for s_ in A.base_scalars)
                    if not all(near(x, y) for x, y in zip(stored, qa)):
                        out.append((tag, f"the point stores {short(stored)} for {short(qa)}"))
                        continue
                    Pb = convert_point(P, B)
                    got = tuple(Pb.coordinates[s_] for s_ in B.base_scalars)
                    if not all(near(x, y) for x, y in zip(got, qb)):
                        out.append((tag, f"converted point {short(got)}, reference {short(qb)}"))
                        continue
                    back = convert_point(Pb, A)
                    gb = tuple(back.coordinates[s_] for s_ in A.base_scalars)
                    if not all(near(x, y) for x, y in zip(gb, qa)):
                        out.append((tag, f"round trip gives {short(gb)} for {short(qa)}"))
                        continue
                    v = sum(c_ * e for c_, e in zip(coeffs, A.base_vectors(P)))
                    vb = sp.expand(convert_vector(v, P, B))
                    nb = B.base_vectors(Pb)
                    comps_b = [vb.coeff(e) for e in nb]
                    rest = sp.expand(vb - sum(c_ * e for c_, e in zip(comps_b, nb)))
                    fa, fb = axis_frame(an, qa), axis_frame(bn, qb)
                    cart_a = [sum(coeffs[j] * fa[j][i] for j in range(3)) for i in range(3)]
                    cart_b = [sum(comps_b[k] * fb[k][i] for k in range(3)) for i in range(3)]
                    ok = rest == 0 and all(near(x, y) for x, y in zip(cart_a, cart_b))
                    out.append((tag, "" if ok else f"vector {coeffs} converted to {short(vb, 120)}: "
                        f"Cartesian components {short([sp.N(c_, 8) for c_ in cart_b])} vs "
                        f"{short([sp.N(c_, 8) for c_ in cart_a])}"))
                except Exception as ex:  # pylint: disable=broad-except
                    out.append((tag, f"raised {type(ex).__name__}: {short(ex)}"))
    return out


def lame_cases() -> list[tuple[str, str]]:
    sy = systems()
    out = []
    for name, S in sy.items():
        s = sp.symbols("s1:4", real=True)
        pos = position(name, s)
        for q in POINTS[name]:
            for j, hj in enumerate(S.lame_coefficients):
                d = [sp.diff(c, s[j]).subs(dict(zip(s, q))) for c in pos]
                want = sp.sqrt(sum(c**2 for c in d))
                got = sp.sympify(hj).subs(dict(zip(S.base_scalars, q)))
                out.append((f"lame:{name}:{j}:{q}", "" if near(got, want) else
                    f"scale factor h_{j + 1} of {name} at {q} is {sp.N(got, 8)}, |d position/d q| = "
                    f"{sp.N(want, 8)}"))
            jac = sp.sympify(S.jacobian).subs(dict(zip(S.base_scalars, q)))
            J = sp.Matrix(3, 3, lambda i, k: sp.diff(pos[i], s[k])).subs(dict(zip(s, q)))
            out.append((f"jacobian:{name}:{q}", "" if near(jac, J.det()) else
                f"jacobian of {name} at {q} is {sp.N(jac, 8)}, det = {sp.N(J.det(), 8)}"))
    return out


def _work(item: tuple) -> dict:
    kind = item[0]
    cases = (pair_cases(*item[1:]) if kind == "pair" else triple_cases(*item[1:]) if kind == "triple"
        else history_cases(*item[1:]) if kind == "history" else axis_cases() if kind == "axis" else
        shared_symbol_cases(*item[1:]) if kind == "shared" else
        lame_cases())
    res: dict[str, Any] = {"n": len(cases), "keys": [k for k, _ in cases], "outcomes": {},
        "violations": [], "samples": [cases[len(cases) // 2][0]] if cases else []}
    for k, v in cases:
        res["outcomes"]["holds" if not v else "fails"] = res["outcomes"].get("holds" if not v else
            "fails", 0) + 1
        if v:
            res["violations"].append((k, v, {"item": list(item), "key": k}))
    return res


def main(run: Run) -> int:
    items: list[tuple] = [("pair", a, b) for a, b in itertools.permutations(NAMES, 2)]
    items += [("pair", a, a) for a in NAMES]
    items += [("pair", a, b, v) for a, b in itertools.product(NAMES, repeat=2) for v in (
        "shared-vectors", "shared-scalars", "function-vectors")]
    items += [("triple", a, b, c) for a, b, c in itertools.permutations(NAMES, 3)]
    items.append(("lame", ))
    items.append(("axis", ))
    items += [("history", a, b) for a, b in itertools.product(NAMES, repeat=2)]
    items += [("shared", a, b) for a, b in itertools.product(NAMES, repeat=2)]
    for r in pmap(_work, rotate(items, run.seed)):
        n = r.pop("n")
        run.evaluations += n
        r["n"] = 0
        run.absorb([r])
    return run.finish(
        rule="6 ordered pairs (+3 same-type pairs) and 6 ordered triples of systems x lattice points "
        "of each domain x {scalar round trip, scalars vs geometry, orthonormality, determinant, "
        "inverse, rotation vs local frames, composition via the third system, convert_point, "
        "convert_vector on 4 vectors}; the same with the second system built on the base vectors / "
        "base scalars of another instance (optional constructor arguments), and with every injective sharing of single base-scalar symbols between the two systems; conversion histories of one point object (two instances of "
        "the target type, back, third type, again; point first / vector first); Lame coefficients and Jacobian at every lattice point",
        exhaustive=True,
        assumptions=["lattice points inside each system's domain, away from the axis (plus points on "
            "the axis for the cylindrical <-> spherical pair, which is regular there)", "values "
            "compared at 40 digits (1e-25)", "own position maps for (rho, phi, z) and (r, theta polar, "
            "phi azimuth)"])


def replay(case: dict) -> list[str]:
    r = _work(tuple(case["item"]))
    return [f"{k}: {w}" for k, w, _ in r["violations"] if k == case["key"]]

"""C03 - laws load and mean the same for every import order and creation history.

Model checking over explicit histories of the real process state: a fork server brings the
per-prefix id counters to exact levels through the public constructors / next_id, and forks one
child per (module, history); the child imports the module and reports a value fingerprint which
must equal the one of the default history.  Histories: counter offsets (name-order classes and
digit boundaries), dependency-first imports, whole-catalogue orders, hash seeds.
"""
from __future__ import annotations

import json
import os
import pickle
import re
import signal
import subprocess
import sys
import time
from typing import Any, Callable, Optional

from .. import catalogue, fingerprint
from ..harness import ROOT, Run, pmap, rotate, NCPU, time_limit, CaseTimeout

PROPERTY = "C03"
LEVEL = "model_checking"

PREFIXES = ("SYM", "FUN", "QTY", "SYS", "", "C", "VEC")
K_QUICK = [0, 9, 99, 756, 950, 999, 4000, 9500, 30000]
FUNC_LEVELS_QUICK = {950, 9500}
SCRATCH = os.environ.get("VERIF_SCRATCH_DIR") or os.path.join(ROOT, "scratch")


def counters() -> dict[str, int]:
    from symplyphysics.core.symbols import id_generator as G
    out = {}
    for p in PREFIXES:
        try:
            out[p] = G.last_id(p)
        except KeyError:
            out[p] = 0
    return out


def bump_to(base: dict[str, int], k: int, only: Optional[str] = None) -> int:
    """advance the counters to base+k; SYM and FUN through the public constructors (their names
    take part in sympy's ordering), the others through next_id.  Returns #events."""
    from symplyphysics import Symbol, Function
    from symplyphysics.core.symbols import id_generator as G
    n = 0
    cur = counters()
    for p in PREFIXES:
        if only is not None and p != only:
            continue
        target = base[p] + k
        while cur[p] < target:
            if p == "SYM":
                Symbol()
            elif p == "FUN":
                Function()
            else:
                G.next_id(p)
            cur[p] += 1
            n += 1
    return n


def in_child(fn: Callable[[], Any], timeout: float = 180.0) -> Any:
    """run fn() in a forked child, return its (picklable) result; {'error': ...} on crash/timeout"""
    r, w = os.pipe()
    pid = os.fork()
    if pid == 0:
        os.close(r)
        try:
            signal.alarm(int(timeout))
            try:
                res = fn()
            except BaseException as ex:  # import-time SystemExit / AssertionError included
                res = {"error": f"{type(ex).__name__}: {str(ex)[:300]}"}
            data = pickle.dumps(res)
            with os.fdopen(w, "wb") as f:
                f.write(data)
        finally:
            os._exit(0)
    os.close(w)
    chunks = []
    with os.fdopen(r, "rb") as f:
        while True:
            b = f.read(1 << 16)
            if not b:
                break
            chunks.append(b)
    _, status = os.waitpid(pid, 0)
    if not chunks:
        return {"error": f"child died (status {status}) - timeout or crash"}
    return pickle.loads(b"".join(chunks))


NAME_RE = re.compile(r"^(SYM|FUN|QTY)(\d+)$")


def child_import(modname: str, with_functions: bool, survey: bool = False,
    deps_first: Optional[list[str]] = None) -> dict:
    before = counters()
    mods_before = set(sys.modules)
    for d in deps_first or []:
        catalogue.load(d)
    mod = catalogue.load(modname)
    after = counters()
    out: dict[str, Any] = {"fp": fingerprint.module_fingerprint(mod, with_functions),
        "created": {p: after[p] - before[p] for p in PREFIXES}}
    if survey:
        new = [m for m in set(sys.modules) - mods_before if m.startswith("symplyphysics.")]
        used: dict[str, set] = {"SYM": set(), "FUN": set(), "QTY": set()}
        import sympy as sp
        for mn in new + [modname]:
            m = sys.modules.get(mn)
            if m is None:
                continue
            for v in vars(m).values():
                if isinstance(v, sp.Basic):
                    for a in v.atoms(sp.Symbol, sp.Function) | {getattr(f, "func", None) for f in
                            v.atoms(sp.Function)}:
                        nm = getattr(a, "name", None)
                        mt = NAME_RE.match(str(nm)) if nm is not None else None
                        if mt and int(mt.group(2)) <= before[mt.group(1)]:
                            used[mt.group(1)].add(int(mt.group(2)))
        out["older_used"] = {p: sorted(v) for p, v in used.items()}
        out["deps"] = sorted(m for m in new if m != modname and any(
            m.startswith(f"symplyphysics.{t}.") for t in catalogue.TREES) and not m.endswith(
            "__init__"))
    return out


def offsets_for(base: dict[str, int], info: dict, splits: str) -> list[int]:
    """representative counter offsets for one module: every name-order class of its block of
    generated names against the older names it uses, digit boundaries, and straddling positions"""
    ks = {0}
    for p in ("SYM", "FUN", "QTY"):
        j = info["created"].get(p, 0)
        if j == 0:
            continue
        c = base[p]
        older = set(info["older_used"].get(p, []))
        points = set()
        for e in range(1, 6):
            points.add(10**e)
            for s in older:
                points.add(s * 10**e)
                points.add((s + 1) * 10**e)
        ts = range(0, j + 1) if splits == "all" else sorted({0, 1, j // 2, j})
        for b in points:
            for t in ts:
                k = b - (c + 1) - t  # the block starts t names before the break point
                if 0 <= k <= 100000:
                    ks.add(k)
        for b in sorted(points):  # one interior representative of every interval
            k = b - (c + 1) + j + 3
            if 0 <= k <= 100000:
                ks.add(k)
    return sorted(ks)


# ---- worker: a private fork server for one shard of modules --------------------------------------

_BASE: dict[str, int] = {}
_BASELINE: dict[str, dict] = {}


def _shard(item: tuple) -> dict:
    """item = (mode, [(module, [offsets], {offsets with functions})])"""
    mode, jobs = item
    res: dict[str, Any] = {"n": 0, "keys": [], "outcomes": {}, "violations": [], "undecided": [],
        "samples": [], "states": 0, "transitions": 0, "traces": 0}
    levels = sorted({k for _, ks, _ in jobs for k in ks})
    only = None if mode in ("all", "deps") else mode
    for k in levels:
        res["transitions"] += bump_to(_BASE, k, only)
        for modname, ks, fks in jobs:
            if k not in ks:
                continue
            base = _BASELINE.get(modname)
            if base is None:
                continue
            wf = k in fks
            deps = base.get("deps", [])[:1] if mode == "deps" else None
            got = in_child(lambda: child_import(modname, wf, deps_first=deps))
            res["n"] += 1
            res["traces"] += 1
            res["transitions"] += 1 + (1 if deps else 0)
            key = f"{modname}@{mode}+{k}"
            res["keys"].append(key)
            res["states"] += 1
            case = {"module": modname, "mode": mode, "offset": k, "functions": wf, "seed":
                os.environ.get("PYTHONHASHSEED", "")}
            if "error" in got:
                res["outcomes"]["import-error"] = res["outcomes"].get("import-error", 0) + 1
                if "error" in base:
                    continue  # fails in the default history too: reported once, there
                res["violations"].append((f"{modname}:import", f"import fails after history "
                    f"[{mode} bump {k}]: {got['error']}", case))
                continue
            if "error" in base:
                continue
            bfp = base["fp"] if wf else {a: b for a, b in base["fp"].items() if not a.startswith(
                "fn:")}
            diffs = fingerprint.compare(bfp, got["fp"])
            if diffs:
                res["outcomes"]["differs"] = res["outcomes"].get("differs", 0) + 1
                res["violations"].append((f"{modname}:meaning", f"history [{mode} bump {k}] changes "
                    f"the module: {'; '.join(diffs)[:400]}", case))
            else:
                res["outcomes"]["same"] = res["outcomes"].get("same", 0) + 1
                if not res["samples"] and k > 0:
                    res["samples"].append({"history": [f"bump({mode},{k})"] + ([f"import({deps[0]})"]
                        if deps else []) + [f"import({modname})"], "fingerprint_entries": len(got["fp"])})
    return res


def _baseline_shard(mods: list[str]) -> dict[str, dict]:
    out = {}
    for m in mods:
        out[m] = in_child(lambda: child_import(m, True, survey=True))
    return out


def _whole_catalogue(order: str) -> dict:
    """one process importing every module in the given order; fingerprints of all"""

    def run() -> dict:
        mods = catalogue.discover()
        if order == "reverse":
            mods = mods[::-1]
        out = {}
        for m in mods:
            try:
                mod = catalogue.load(m)
                out[m] = {"fp": fingerprint.module_fingerprint(mod, False, budget=4.0)}
            except BaseException as ex:
                out[m] = {"error": f"{type(ex).__name__}: {str(ex)[:200]}"}
        return out

    return in_child(run, timeout=1500)


def _catalogue_item(order: str) -> dict:
    res: dict[str, Any] = {"n": 0, "keys": [], "outcomes": {}, "violations": [], "undecided": [],
        "samples": [], "states": 0, "transitions": 0, "traces": 1}
    got = _whole_catalogue(order)
    if "error" in got and len(got) == 1:
        res["undecided"].append((f"catalogue:{order}", got["error"]))
        return res
    for m, r in got.items():
        base = _BASELINE.get(m)
        if base is None:
            continue
        res["n"] += 1
        res["transitions"] += 1
        res["states"] += 1
        res["keys"].append(f"{m}@catalogue:{order}")
        case = {"module": m, "mode": f"catalogue:{order}", "offset": 0, "functions": False,
            "seed": os.environ.get("PYTHONHASHSEED", "")}
        if "error" in r:
            if "error" not in base:
                res["violations"].append((f"{m}:import", f"import fails when the whole catalogue is "
                    f"imported in {order} order: {r['error']}", case))
            continue
        if "error" in base:
            continue
        diffs = fingerprint.compare({a: b for a, b in base["fp"].items() if not a.startswith("fn:")},
            r["fp"])
        if diffs:
            res["violations"].append((f"{m}:meaning", f"whole-catalogue import ({order}) changes the "
                f"module: {'; '.join(diffs)[:400]}", case))
        else:
            res["outcomes"]["same"] = res["outcomes"].get("same", 0) + 1
    return res


# ---- histories of the arguments: a result must not depend on the generated names of its arguments ---

ARG_BOUNDS = [100, 1000, 10000, 100000]
ARG_TUPLES = ("default", "zero-first", "zero-second")


def _special_args(params: list, tname: str) -> Optional[dict]:
    """argument tuples: the default one; the first (second) quantity a dimensionful zero and the
    other quantities negative.  Created now: the quantities take the next generated names."""
    from symplyphysics import Quantity
    from .. import args as A
    if tname == "default":
        return A.call_args(params)
    qs = [p for p in params if p.kind == "quantity" and p.dim is not None and not
        p.dim.dimensionless]
    idx = 0 if tname == "zero-first" else 1
    if len(qs) <= idx or len(qs) < 2:
        return None
    kw = {}
    for p in params:
        if p.kind in ("default", "free"):
            continue
        if p is qs[idx]:
            kw[p.name] = Quantity(0, dimension=_dimension_of(p))
        elif p.kind == "quantity" and p in qs:
            kw[p.name] = A.realise_param(p, -1.0)
        else:
            kw[p.name] = A.realise_param(p)
    return kw


def _dimension_of(p: Any) -> Any:
    import sympy as sp
    from sympy.physics.units import Dimension
    from sympy.physics import units as U
    e = Dimension(1)
    for b, x in p.dim.e.items():
        e = e * getattr(U, b)**sp.Rational(x.numerator, x.denominator)
    return e


def child_args(modname: str, j: int, start: int) -> list:
    """in a forked child: import the module; for up to four (function, tuple) pairs from `start`:
    result with the arguments created now, then the quantity counter is advanced to just below
    the next digit boundary (boundary - j) and the same arguments are created and passed again"""
    from symplyphysics.core.symbols import id_generator as G
    from .. import args as A
    from .c02 import si_struct
    mod = catalogue.load(modname)
    pairs = []
    for fname, fn in sorted(catalogue.functions(mod)):
        sp_ = catalogue.spec(fn)
        if not (sp_["decorated"] or fname.startswith("calculate_")):
            continue
        params, why = A.plan(fn, mod)
        if why or (any(p.kind == "free" for p in params) and not A.resolve_free(fn, params, mod)):
            continue
        for t in ARG_TUPLES:
            pairs.append((fname, fn, params, t))
    out = []

    def call(fn: Any, kw: dict) -> str:
        try:
            with time_limit(20):
                return fingerprint._round(si_struct(fn(**kw)))
        except CaseTimeout:
            return "timeout"
        except Exception as ex:  # pylint: disable=broad-except
            return f"raises {type(ex).__name__}"

    for slot, (fname, fn, params, t) in enumerate(pairs[start:start + len(ARG_BOUNDS)]):
        kw = _special_args(params, t)
        if kw is None:
            continue
        before = call(fn, kw)
        target = ARG_BOUNDS[slot] - j
        cur = counters()["QTY"]
        if cur >= target:
            continue
        while cur < target:
            cur = G.next_id("QTY")
        kw2 = _special_args(params, t)
        after = call(fn, kw2)
        out.append((fname, t, ARG_BOUNDS[slot], before, after))
    return [len(pairs)] + out


def _args_shard(mods: list[str]) -> dict:
    res: dict[str, Any] = {"n": 0, "keys": [], "outcomes": {}, "violations": [], "undecided": [],
        "samples": [], "states": 0, "transitions": 0, "traces": 0}
    for modname in mods:
        base = _BASELINE.get(modname)
        if base is None or "error" in base or not any(k.startswith("fn:") for k in base["fp"]):
            continue
        for j in (2, 3):
            start, total = 0, 1
            while start < total:
                got = in_child(lambda: child_args(modname, j, start), timeout=300)
                if isinstance(got, dict):
                    res["undecided"].append((f"{modname}@args", got.get("error", "?")))
                    break
                total = got[0]
                for fname, t, b, before, after in got[1:]:
                    res["n"] += 1
                    res["states"] += 1
                    res["transitions"] += 2
                    res["traces"] += 1
                    key = f"{modname}.{fname}@args:{t}:{b}-{j}"
                    res["keys"].append(key)
                    same = before == after or "timeout" in (before, after) or \
                        fingerprint._close_str(before, after)
                    res["outcomes"]["args-same" if same else "args-differ"] = res["outcomes"].get(
                        "args-same" if same else "args-differ", 0) + 1
                    if not same:
                        res["violations"].append((f"{modname}.{fname}:argument-names", f"the same "
                            f"arguments ({t}) give {before} when created at low counters and {after} "
                            f"when their generated names straddle QTY{b} (counter at {b} - {j})",
                            {"module": modname, "mode": "args", "offset": j, "functions": True,
                            "seed": os.environ.get("PYTHONHASHSEED", "")}))
                start += len(ARG_BOUNDS)
    return res


def _dispatch(item: tuple) -> dict:
    if item[0] == "catalogue":
        return _catalogue_item(item[1])
    if item[0] == "args":
        return _args_shard(item[1])
    return _shard(item)


def plan_jobs(mods: list[str], thorough: bool, seed_pass: bool) -> list[tuple]:
    nshards = NCPU
    items: list[tuple] = []
    modes = ["all"]
    if thorough and not seed_pass:
        modes += ["SYM", "FUN", "QTY", "deps"]
    for mode in modes:
        shards: list[list] = [[] for _ in range(nshards)]
        for i, m in enumerate(mods):
            info = _BASELINE.get(m)
            if info is None or "error" in info:
                ks = [0, 950] if info is not None else []
                fks: set = set()
            elif seed_pass:
                ks, fks = ([0, 950, 9500], {950}) if thorough else ([0, 950], set())
            elif thorough and mode == "all":
                ks = sorted(set(offsets_for(_BASE, info, "some")) | set(K_QUICK))
                fks = {k for k in ks if k in FUNC_LEVELS_QUICK or k in (999, 30000)}
            elif mode == "deps":
                if not info.get("deps"):
                    continue
                ks, fks = [0, 950, 4000], set()
            elif mode != "all":
                ks, fks = [9, 99, 950, 4000, 9500], set()
            else:
                ks, fks = list(K_QUICK), set(FUNC_LEVELS_QUICK)
                # the module's own block of new names straddling the digit boundaries 999|1000 and
                # 9999|10000 at every split position (string order flips there)
                j = max(info["created"].get("SYM", 0), 1)
                for t in range(1, min(j, 12) + 1):
                    ks.append(1000 - (_BASE["SYM"] + 1) - t)
                    fks.add(1000 - (_BASE["SYM"] + 1) - t)
                for t in range(1, min(j, 4) + 1):
                    ks.append(10000 - (_BASE["SYM"] + 1) - t)
                ks = sorted(set(k for k in ks if k >= 0))
            if mode == "all" and not seed_pass and 0 in ks:
                ks = [k for k in ks if k != 0]  # offset 0 / mode all is the baseline itself
            shards[i % nshards].append((m, ks, fks))
        items.extend((mode, sh) for sh in shards if sh)
    if not seed_pass:
        items.append(("catalogue", "alphabetical"))
        items.append(("catalogue", "reverse"))
        for i in range(nshards * 2):
            part = mods[i::nshards * 2]
            if part:
                items.append(("args", part))
    return items


def explore(run: Run, seed_pass: bool = False) -> None:
    global _BASE, _BASELINE
    import symplyphysics  # noqa: F401
    catalogue.install_recorders()
    _BASE = counters()
    mods = catalogue.discover()
    os.makedirs(SCRATCH, exist_ok=True)
    basefile = os.path.join(SCRATCH, "c03_baseline.pkl")
    if seed_pass:
        with open(basefile, "rb") as f:
            _BASELINE = pickle.load(f)
    else:
        chunks = [mods[i::NCPU * 4] for i in range(NCPU * 4)]
        for part in pmap(_baseline_shard, chunks):
            _BASELINE.update(part)
        with open(basefile, "wb") as f:
            pickle.dump(_BASELINE, f)
        for m in mods:
            b = _BASELINE.get(m, {"error": "no result"})
            run.case(f"{m}@default", outcome="baseline")
            run.states += 1
            run.transitions += 1
            run.traces += 1
            if "error" in b:
                run.violation(f"{m}:import", f"import fails in the default history: {b['error']}",
                    {"module": m, "mode": "all", "offset": 0, "functions": False, "seed": "0"})
    items = plan_jobs(rotate(mods, run.seed * 31), run.thorough, seed_pass)
    # long single jobs first
    items.sort(key=lambda it: 0 if it[0] == "catalogue" else 1)
    for r in pmap(_dispatch, items, fresh=True):
        n = r.pop("n")
        run.evaluations += n
        r["n"] = 0
        run.absorb([r])


def main(run: Run) -> int:
    if os.environ.get("C03_SEED_PASS"):
        explore(run, seed_pass=True)
        out = {"evaluations": run.evaluations, "states": run.states, "transitions":
            run.transitions, "traces": run.traces, "keys": sorted(run.distinct), "outcomes":
            dict(run.outcomes), "violations": [(v["key"], v["what"]) for v in run.violations]}
        with open(os.environ["C03_SEED_PASS"], "w") as f:
            json.dump(out, f)
        return 0
    explore(run)
    seeds = [1, 2, 3] if run.thorough else [1]
    procs = []
    for s in seeds:
        outf = os.path.join(SCRATCH, f"c03_seed{s}.json")
        env = dict(os.environ, PYTHONHASHSEED=str(s), C03_SEED_PASS=outf, VERIF_JOBS=str(max(2,
            NCPU // len(seeds))))
        procs.append((s, outf, subprocess.Popen([sys.executable, "-m", "vp.run", "C03", run.tier],
            env=env, cwd=ROOT, stdout=subprocess.PIPE, stderr=subprocess.STDOUT, text=True)))
    for s, outf, p in procs:
        log, _ = p.communicate()
        if p.returncode != 0 or not os.path.exists(outf):
            sys.stderr.write(f"seed pass {s} failed:\n{log[-2000:]}\n")
            raise SystemExit(2)
        with open(outf) as f:
            o = json.load(f)
        os.unlink(outf)
        run.evaluations += o["evaluations"]
        run.states += o["states"]
        run.transitions += o["transitions"]
        run.traces += o["traces"]
        for k in o["keys"]:
            run.distinct.add(f"seed{s}:{k}")
        for k, v in o["outcomes"].items():
            run.outcomes[k] += v
        for key, what in o["violations"]:
            run.violation(key, f"[PYTHONHASHSEED={s}] {what}", {"module": key.split(":")[0],
                "mode": "all", "offset": 950, "functions": True, "seed": str(s)})
    run.note(base_counters=_BASE, hash_seeds=[0] + seeds, offsets_quick=K_QUICK,
        modes=["all prefixes together"] + (["SYM alone", "FUN alone", "QTY alone",
        "dependency imported first"] if run.thorough else []))
    return run.finish(
        rule="state = (module, history); histories: default, counter offsets (digit boundaries and "
        "name-order classes), whole-catalogue alphabetical / reverse imports, hash seeds, argument "
        "tuples (default, dimensionful zero first / second with negative partners) whose generated "
        "names straddle a digit boundary"
        + (", single-prefix bumps, dependency-first imports, per-module break-point offsets" if
        run.thorough else "") + "; every history is executed on the real interpreter state in a "
        "forked child; distinct = distinct (module, history) pairs",
        exhaustive=True,
        assumptions=["a history matters to a module only through the string order of generated "
            "names, the hash seed and which dependencies were imported earlier", "offsets <= 1e5",
            "QTY / SYS / vector counters are advanced with next_id (no objects created)",
            "fingerprint = 20-digit values of both sides of every public equation at a fixed "
            "environment keyed by stable names, plus SI results of calculate_* at default tuples"])


def replay(case: dict) -> list[str]:
    import symplyphysics  # noqa: F401
    catalogue.install_recorders()
    base = counters()
    m = case["module"]
    b = in_child(lambda: child_import(m, bool(case.get("functions")), survey=True))
    mode = case.get("mode", "all")
    if mode.startswith("catalogue"):
        got_all = _whole_catalogue(mode.split(":")[1])
        got = got_all.get(m, {"error": "missing"})
    else:
        bump_to(base, int(case.get("offset", 0)), None if mode in ("all", "deps") else mode)
        deps = b.get("deps", [])[:1] if mode == "deps" else None
        got = in_child(lambda: child_import(m, bool(case.get("functions")), deps_first=deps))
    if "error" in got:
        return [f"{m}: import fails: {got['error']}"]
    if "error" in b:
        return [f"{m}: import fails in the default history: {b['error']}"]
    bfp = b["fp"] if case.get("functions") else {a: x for a, x in b["fp"].items() if not
        a.startswith("fn:")}
    diffs = fingerprint.compare(bfp, got["fp"])
    return [f"{m}: {'; '.join(diffs)[:400]}"] if diffs else []

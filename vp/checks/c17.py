"""C17 - code rendering of formulas is meaning-preserving.

(1) all canonical (auto-evaluated) trees with <= n internal nodes over the printer-relevant
alphabet; (2) every documented catalogue equation in source form.  The rendering is parsed by an
own precedence parser (vp/parse_code.py) and its value at lattice points is compared with the
value of the original expression.
"""
from __future__ import annotations

import hashlib
import re
from typing import Any, Optional

import mpmath
import sympy as sp
from sympy.physics.units import Quantity as SymQuantity

from .. import catalogue, explore, parse_code, printspace, values
from ..harness import Run, pmap, rotate, short, time_limit, CaseTimeout

PROPERTY = "C17"
LEVEL = "exploration"
INTERNAL = re.compile(r"(SYM|FUN|QTY)\d+")
POINTS = [{"a": "3/7", "beta_1": "11/5", "x_c": "13/3", "n": "2", "w": "3/10+4*I", "v": "-6/5+7/10*I"},
    {"a": "17/9", "beta_1": "2/7", "x_c": "5/11", "n": "3", "w": "-7/5-19/4*I", "v": "5/3+2*I"}]


def mp_value(e: Any, rep: dict) -> Any:
    v = sp.N(e.xreplace(rep), 40)
    return values.mpc(v)


def canonical_case(d: Any) -> Optional[tuple[str, str, str]]:
    """(key, outcome, violation)"""
    from symplyphysics.docs.printer_code import code_str
    try:
        e = printspace.build(d)
    except OverflowError:
        return None  # sympy cannot even build this power of a huge float
    if e.has(sp.zoo, sp.nan) or e in (sp.oo, -sp.oo):
        return None
    key = sp.srepr(e)
    text = code_str(e)
    syms = printspace.symbols()
    names = [s.display_name for s in syms]
    if INTERNAL.search(text):
        return key, "checked", f"internal name in {text!r}"
    for s in e.free_symbols:
        if s.display_name not in text:
            return key, "checked", f"display name {s.display_name} missing in {text!r}"
    try:
        tree = parse_code.parse(text, names)
    except parse_code.ParseError as ex:
        return key, "checked", f"rendering {text!r} does not parse: {ex}"
    tol = 1e-11 if e.atoms(sp.Float) else 1e-25
    for pt in POINTS:
        env = {k: printspace.point_mp(v) for k, v in pt.items()}
        rep = {s: printspace.point_value(pt[s.display_name]) for s in syms}
        try:
            want = mp_value(e, rep)
            got = parse_code.evaluate(tree, env)
        except parse_code.Opaque as ex:
            return key, "checked", f"rendering {text!r} uses {ex}"
        except (ZeroDivisionError, ValueError, OverflowError, TypeError):
            return key, "undefined", ""
        if mpmath.isnan(want) or mpmath.isinf(want):
            return key, "undefined", ""
        if want != 0 and abs(mpmath.log10(abs(want))) > 5000:
            return key, "undefined", ""  # astronomically large / small: a 15-digit float in an
            # exponent makes the comparison meaningless
        if not values.close(got, want, tol, 1e-40):
            if not printspace.float_conditioned(e, rep, want, tol):
                return key, "undefined", ""
            return key, "checked", (f"{text!r} parses to {mpmath.nstr(got, 15)} but the expression "
                f"{short(e, 80)} is {mpmath.nstr(want, 15)} at {pt}")
    return key, "checked", ""


def entry_value_ok(text: str, e: Any) -> str:
    """'' if the code text of one matrix entry parses to the value of e"""
    syms = printspace.symbols()
    names = [s_.display_name for s_ in syms]
    try:
        tree = parse_code.parse(text, names)
    except parse_code.ParseError as ex:
        return f"entry {text!r} does not parse: {ex}"
    for pt in POINTS:
        env = {k: printspace.point_mp(v) for k, v in pt.items()}
        rep = {s_: printspace.point_value(pt[s_.display_name]) for s_ in syms}
        try:
            if not values.close(parse_code.evaluate(tree, env), mp_value(sp.sympify(e), rep), 1e-25,
                    1e-40):
                return f"entry {text!r} is not {short(e, 60)}"
        except Exception as ex:  # pylint: disable=broad-except
            return f"entry {text!r}: {type(ex).__name__}"
    return ""


def matrix_case(r: int, c: int, rot: int, immutable: bool) -> tuple[str, str, str]:
    from symplyphysics.docs.printer_code import code_str
    rows = printspace.matrix_entries(r, c, rot)
    M = (sp.ImmutableMatrix if immutable else sp.Matrix)(rows)
    text = code_str(M)
    key = f"matrix:{r}x{c}:{rot}:{'immutable' if immutable else 'mutable'}"
    if r == 1 and c > 1 and text.endswith(".T"):
        text = text[:-2]  # a row is written as a transposed column
    if not (text.startswith("[") and text.endswith("]")):
        return key, "matrix", f"rendering {text!r} is not a bracketed list"
    outer = printspace.split_top(text[1:-1], ",")
    nested = all(x.startswith("[") and x.endswith("]") for x in outer)
    if nested:
        got = [printspace.split_top(x[1:-1], ",") for x in outer]
    else:
        got = [outer]
    flat_want = [e for row in rows for e in row]
    flat_got = [e for row in got for e in row]
    shape_got = [len(row) for row in got]
    ok_shapes = ([[c] * r] if r > 1 and c > 1 else [[r * c], [c] * r, [1] * (r * c)])
    if shape_got not in ok_shapes:
        return key, "matrix", f"{r} x {c} matrix rendered as {text!r}: row lengths {shape_got}"
    if len(flat_got) != len(flat_want):
        return key, "matrix", f"{r} x {c} matrix rendered with {len(flat_got)} entries: {text!r}"
    for t, e in zip(flat_got, flat_want):
        v = entry_value_ok(t, e)
        if v:
            return key, "matrix", f"{r} x {c} matrix rendered as {text!r}: {v}"
    return key, "matrix", ""


def matrix_product_cases() -> list[tuple[str, str, str]]:
    """unevaluated matrix products with scalar factors (symplyphysics.Matrix * scalar, MatMul): the
    rendering, read under ordinary precedence with every matrix literal as one opaque factor, has
    the value of the product of the scalar factors times the matrices"""
    from symplyphysics import Matrix
    from symplyphysics.docs.printer_code import code_str
    L = printspace.setup()
    a, b, c = L["a"], L["b"], L["c"]
    M = Matrix([[a, b], [c, a * b]])
    N = Matrix([[c, 2], [b, a]])
    v = sp.Matrix([[a], [b]])
    scalars = {"a+b": a + b, "a-b": a - b, "a/2+1": a / 2 + 1, "2": sp.Integer(2), "-a": -a,
        "a*b": a * b, "1/c": 1 / c, "a**2": a**2, "-a-b": -a - b}
    out = []
    syms = printspace.symbols()
    names = [s_.display_name for s_ in syms]
    for sname, sc in scalars.items():
        products = {"M*s": (lambda: M * sc, 1, 1), "MatMul(s,M,v)": (lambda: sp.MatMul(sc, M, v), 1,
            2), "MatMul(M,s,N)": (lambda: sp.MatMul(M, sc, N), 1, 2), "MatMul(s,s,M)": (lambda:
            sp.MatMul(sc, sc, M), 2, 1)}
        for pname, (mk, n_scalar, n_mats) in products.items():
            key = f"matrix-product:{pname}:{sname}"
            try:
                e = mk()
                text = code_str(e)
            except Exception as ex:  # pylint: disable=broad-except
                out.append((key, "matrix", f"rendering raised {type(ex).__name__}: {short(ex)}"))
                continue
            # replace every top-level bracketed literal by a placeholder factor
            plain, depth, count, start = "", 0, 0, 0
            for i, ch in enumerate(text):
                if ch == "[":
                    if depth == 0:
                        count += 1
                        plain += f"MATRIX{count}"
                    depth += 1
                elif ch == "]":
                    depth -= 1
                elif depth == 0:
                    plain += ch
            plain = plain.replace(".T", "")
            viol = ""
            if count != n_mats:
                viol = f"{count} matrix literals in {text!r}, expected {n_mats}"
            else:
                try:
                    tree = parse_code.parse(plain, names + [f"MATRIX{i + 1}" for i in range(count)])
                    for pt in POINTS:
                        env = {k_: printspace.point_mp(v_) for k_, v_ in pt.items()}
                        mats = {f"MATRIX{i + 1}": mpmath.mpf(7 + 4 * i) / 3 for i in range(count)}
                        rep = {s_: printspace.point_value(pt[s_.display_name]) for s_ in syms}
                        want = mp_value(sc, rep)**n_scalar
                        for m_ in mats.values():
                            want = want * m_
                        got = parse_code.evaluate(tree, {**env, **mats})
                        if not values.close(got, want, 1e-25, 1e-40):
                            viol = (f"{text!r} read with the matrices as opaque factors is not the "
                                f"scalar {sname} (x{n_scalar}) times the matrices")
                            break
                except (parse_code.ParseError, parse_code.Opaque) as ex:
                    viol = f"{text!r} does not parse: {ex}"
            out.append((key, "matrix", viol))
    return out


# ---- catalogue ------------------------------------------------------------------------------------


def _hval(name: str, salt: str = "") -> sp.Rational:
    n = int(hashlib.sha1((salt + name).encode()).hexdigest()[:8], 16)
    return sp.Rational(3 + n % 97, 7 + (n // 97) % 31)


def display_of(atom: Any) -> Optional[str]:
    dn = getattr(atom, "display_name", None)
    if dn is not None:
        return str(dn)
    return getattr(atom, "name", None)


def catalogue_equation(modname: str, attr: str, value: Any, text: Any = None) -> tuple[str, str]:
    """('value' | 'structure' | 'skipped', violation); ``text`` overrides the rendering to judge
    (C19 passes the text found on the generated page)"""
    from symplyphysics.docs.printer_code import code_str
    if text is None:
        text = code_str(value)
    if INTERNAL.search(text):
        return "value", f"internal name in the rendering {short(text, 120)}"
    if not isinstance(value, sp.Basic):
        return "skipped", ""
    atoms = set()
    for a in sp.preorder_traversal(value):
        if isinstance(a, (sp.Symbol, SymQuantity)) or (hasattr(a, "display_name") and not a.args):
            atoms.add(a)
    fclasses = {f.func for f in value.atoms(sp.core.function.AppliedUndef)}
    names = [display_of(a) for a in atoms] + [display_of(f) for f in fclasses]
    names = [n for n in names if n]
    seen: dict[str, Any] = {}
    for a in sorted(atoms, key=str):
        n = display_of(a)
        if not n or isinstance(a, sp.Indexed):
            continue
        if n in seen and seen[n] != a:
            # the reader cannot tell the two apart: the rendering denotes something else
            return "value", (f"{short(text, 140)}: two different symbols of the equation are both "
                f"shown as {n}")
        seen[n] = a
    try:
        tree = parse_code.parse(text, names)
    except parse_code.ParseError as ex:
        # display names may contain brackets / operators; only a failure on a purely arithmetic
        # equation is a finding
        if value.atoms(sp.Derivative, sp.Integral, sp.Sum, sp.MatrixBase, sp.Indexed) or any(
                type(x).__name__ in ("IndexedSum", "IndexedProduct") for x in
                sp.preorder_traversal(value)):
            return "structure", ""
        return "value", f"rendering {short(text, 140)} does not parse: {short(ex, 100)}"
    if tree.kind != "rel":
        sides_tree = [tree]
        sides = [value]
    else:
        if not isinstance(value, sp.core.relational.Relational):
            return "structure", ""
        sides_tree = [tree.args[1], tree.args[2]]
        sides = [value.lhs, value.rhs]
    # environment keyed by display name
    env, rep, apply_env, frep = {}, {}, {}, {}
    for a in atoms:
        n = display_of(a)
        if isinstance(a, SymQuantity):
            v = sp.Rational(5, 3) + _hval(n) / 7
        else:
            v = _hval(n)
        env[n] = mpmath.mpf(v.p) / v.q
        rep[a] = v
    for f in fclasses:
        n = display_of(f)
        c = _hval(n, "fun")

        def fn(*args: Any, c: Any = c) -> Any:
            r = mpmath.mpf(c.p) / c.q
            for i, x in enumerate(args):
                r = r + (i + 2) * mpmath.power(x, i + 1) / 5
            return r

        apply_env[n] = fn
    for ap in value.atoms(sp.core.function.AppliedUndef):
        c = _hval(display_of(ap.func), "fun")
        frep[ap] = c + sum(((i + 2) * x**(i + 1) / 5 for i, x in enumerate(ap.args)), sp.S.Zero)
    kind = "value"
    for st, sv in zip(sides_tree, sides):
        try:
            got = parse_code.evaluate(st, env, apply_env)
        except parse_code.Opaque:
            kind = "structure"
            continue
        except (ZeroDivisionError, ValueError, OverflowError, TypeError):
            kind = "structure"
            continue
        try:
            sv2 = sv.xreplace(frep) if frep else sv
            want = values.mpc(sp.N(sv2.xreplace(rep), 40))
        except Exception:
            kind = "structure"
            continue
        if mpmath.isnan(want) or mpmath.isinf(want) or mpmath.isnan(got) or mpmath.isinf(got):
            continue
        tol = 1e-11 if sv.atoms(sp.Float) else 1e-22
        if not values.close(got, want, tol, 1e-40):
            return "value", (f"rendering {short(text, 140)}: side parses to {mpmath.nstr(got, 12)} "
                f"but the expression is {mpmath.nstr(want, 12)}")
    return kind, ""


def _work(item: tuple) -> dict:
    kind, payload = item
    res: dict[str, Any] = {"n": 0, "keys": [], "outcomes": {}, "violations": [], "undecided": [],
        "samples": []}

    def count(o: str) -> None:
        res["outcomes"][o] = res["outcomes"].get(o, 0) + 1

    if kind == "matrices":
        for r_, c_, rot in payload:
            for imm in (False, True):
                res["n"] += 1
                key, outcome, viol = matrix_case(r_, c_, rot, imm)
                res["keys"].append(key)
                count(outcome)
                if viol:
                    res["violations"].append((key, viol, {"matrix": [r_, c_, rot, imm]}))
        for key, outcome, viol in matrix_product_cases():
            res["n"] += 1
            res["keys"].append(key)
            count(outcome)
            if viol:
                res["violations"].append((key, viol, {"matrix_product": key}))
    elif kind == "trees":
        for d in payload:
            res["n"] += 1
            try:
                with time_limit(20):
                    r = canonical_case(d)
            except CaseTimeout:
                res["undecided"].append((str(d), "timeout"))
                continue
            except Exception as ex:
                if type(ex).__name__ in ("TypeError", "ValueError") and "build" in repr(ex):
                    continue
                raise
            if r is None:
                count("excluded")
                continue
            key, outcome, viol = r
            res["keys"].append(key)
            count(outcome)
            if viol:
                res["violations"].append((key, viol, {"tree": d}))
            elif not res["samples"] and isinstance(d, tuple) and len(str(d)) > 30:
                from symplyphysics.docs.printer_code import code_str
                res["samples"].append({"tree": d, "rendering": code_str(printspace.build(d))})
    else:
        for modname in payload:
            try:
                with time_limit(120):
                    members = printspace.source_members(modname)
            except CaseTimeout:
                res["undecided"].append((modname, "timeout while loading the source form"))
                continue
            except Exception as ex:
                res["undecided"].append((modname, f"source form not loadable: {type(ex).__name__}: "
                    f"{short(ex, 80)}"))
                continue
            for attr, value in members:
                vals = value if isinstance(value, (list, tuple)) else [value]
                for i, v in enumerate(vals):
                    key = f"{modname}.{attr}" + (f"[{i}]" if len(vals) > 1 else "")
                    res["n"] += 1
                    res["keys"].append(key)
                    try:
                        with time_limit(30):
                            cls, viol = catalogue_equation(modname, attr, v)
                    except CaseTimeout:
                        res["undecided"].append((key, "timeout"))
                        continue
                    count(f"catalogue-{cls}")
                    if viol:
                        res["violations"].append((key, viol, {"module": modname, "attr": attr,
                            "index": i}))
    return res


def main(run: Run) -> int:
    printspace.setup()
    descs = rotate(list(printspace.space(run.thorough)), run.seed * 7919)
    items: list[tuple] = [("trees", c) for c in explore.chunked(descs, 400)]
    mods = catalogue.discover()
    items += [("catalogue", c) for c in explore.chunked(mods, 12)]
    items.append(("matrices", list(printspace.matrix_space())))
    for r in pmap(_work, items):
        n = r.pop("n")
        run.evaluations += n
        r["n"] = 0
        run.absorb([r])
    run.note(tree_descriptions=len(descs), bound="<= 3 internal nodes (third level reduced menu)" if
        run.thorough else "<= 2 internal nodes")
    return run.finish(
        rule="(1) all auto-evaluated trees with <= n internal nodes over 10 leaves x {Add, Mul (2-3 "
        "args), Pow with 9 exponents, sqrt, exp, log, log base 2, sin, Abs}, de-duplicated by "
        "srepr of the canonical expression; (2) every documented catalogue equation in source "
        "form; (3) dense matrices of every shape up to 3 x 3 with pairwise distinct canonical entries; "
        "distinct = distinct canonical expressions / equations",
        exhaustive=True,
        assumptions=["value equality at 2 lattice points (40 digits; 1e-11 when a Float is "
            "printed with 15 digits)", "catalogue equations containing derivatives, integrals, sums, "
            "matrices or indexed symbols are parsed and structure-checked only (counted separately)"])


def replay(case: dict) -> list[str]:
    printspace.setup()
    if "tree" in case:
        r = canonical_case(explore.tup(case["tree"]))
        return [r[2]] if r and r[2] else []
    if "matrix_product" in case:
        return [v for k, _, v in matrix_product_cases() if v and k == case["matrix_product"]]
    if "matrix" in case:
        r_, c_, rot, imm = case["matrix"]
        return [v for v in [matrix_case(r_, c_, rot, imm)[2]] if v]
    members = dict(printspace.source_members(case["module"]))
    v = members.get(case["attr"])
    if v is None:
        return []
    vals = v if isinstance(v, (list, tuple)) else [v]
    _, viol = catalogue_equation(case["module"], case["attr"], vals[case.get("index", 0)])
    return [viol] if viol else []

"""C01 - every published equation is dimensionally homogeneous (finite space, exhaustive)."""
from __future__ import annotations

from typing import Any

from .. import catalogue, eqdims
from ..harness import Run, pmap, rotate, time_limit, CaseTimeout

PROPERTY = "C01"
LEVEL = "exploration"


def source_form_equations(modname: str) -> list[tuple[str, Any]]:
    """the documented members in source (unevaluated) form, as the documentation obtains them"""
    import importlib
    from symplyphysics.docs.parse import find_members_and_functions  # type: ignore
    from symplyphysics.docs.patch import patch_sympy_evaluate  # type: ignore
    import ast, os
    mod = importlib.import_module(modname)
    path = mod.__file__
    assert path
    with open(path, encoding="utf-8") as f:
        src = f.read()
    tree = ast.parse(src)
    out = []
    try:
        res = find_members_and_functions(tree)
    except Exception:
        return out
    return out


def _work(modname: str) -> dict:
    res: dict[str, Any] = {"n": 0, "keys": [], "outcomes": {}, "violations": [], "undecided": [],
        "samples": [], "states": 0, "transitions": 0}
    try:
        mod = catalogue.load(modname)
    except Exception as ex:
        # import failures belong to C03; here the module simply contributes no equation
        res["undecided"].append((modname, f"import failed: {type(ex).__name__}: {str(ex)[:100]}"))
        return res
    for attr, eq in catalogue.equations(mod):
        key = f"{modname}.{attr}"
        res["n"] += 1
        res["keys"].append(key)
        try:
            with time_limit(30):
                verdict, msg, nodes, edges = eqdims.check_equation(eq)
        except CaseTimeout:
            res["undecided"].append((key, "timeout"))
            continue
        res["states"] += nodes
        res["transitions"] += edges
        res["outcomes"][verdict] = res["outcomes"].get(verdict, 0) + 1
        if verdict == "inhomogeneous":
            res["violations"].append((key, msg, {"module": modname, "attr": attr}))
        elif verdict == "undecided":
            res["undecided"].append((key, msg))
        elif not res["samples"] and nodes > 8:
            res["samples"].append({"equation": key, "nodes": nodes})
    return res


def main(run: Run) -> int:
    mods = rotate(catalogue.discover(), run.seed * 31)
    nodes = edges = 0
    for r in pmap(_work, mods, chunksize=6):
        n = r.pop("n")
        run.evaluations += n
        r["n"] = 0
        nodes += r.pop("states")
        edges += r.pop("transitions")
        run.absorb([r])
    run.note(modules=len(mods), nodes_visited=nodes, edges_visited=edges)
    return run.finish(
        rule="one case per public equation attribute (Eq / relational / boolean combination / "
        "list element) of every module and package under laws/, definitions/, conditions/; every "
        "node of the equation tree is assigned an exponent vector; all cases distinct and "
        "non-trivial",
        exhaustive=True,
        assumptions=["homogeneity is judged against declared dimensions", "plain sympy symbols "
            "(dummies, indices, field parameters) are wildcards", "functions other than exp / "
            "trigonometric / hyperbolic do not constrain their arguments (as the property words it)"])


def replay(case: dict) -> list[str]:
    mod = catalogue.load(case["module"])
    for attr, eq in catalogue.equations(mod):
        if attr == case["attr"]:
            v, msg, _, _ = eqdims.check_equation(eq)
            return [f"{case['module']}.{attr}: {msg}"] if v == "inhomogeneous" else []
    return [f"{case['module']}.{case['attr']} no longer exists"]

"""C01 - every published equation is dimensionally homogeneous (finite space, exhaustive)."""
from __future__ import annotations

from typing import Any

from .. import catalogue, eqdims
from ..harness import Run, pmap, rotate, time_limit, CaseTimeout

PROPERTY = "C01"
LEVEL = "exploration"


def _work(modname: str) -> dict:
    res: dict[str, Any] = {"n": 0, "keys": [], "outcomes": {}, "violations": [], "undecided": [],
        "samples": [], "states": 0, "transitions": 0}
    try:
        mod = catalogue.load(modname)
    except Exception as ex:
        # import failures belong to C03; here the module simply contributes no equation
        res["undecided"].append((modname, f"import failed: {type(ex).__name__}: {str(ex)[:100]}"))
        return res
    for attr, eq in catalogue.equations(mod):
        key = f"{modname}.{attr}"
        res["n"] += 1
        res["keys"].append(key)
        try:
            with time_limit(30):
                verdict, msg, nodes, edges = eqdims.check_equation(eq)
        except CaseTimeout:
            res["undecided"].append((key, "timeout"))
            continue
        res["states"] += nodes
        res["transitions"] += edges
        res["outcomes"][verdict] = res["outcomes"].get(verdict, 0) + 1
        if verdict == "inhomogeneous":
            res["violations"].append((key, msg, {"module": modname, "attr": attr}))
        elif verdict == "undecided":
            res["undecided"].append((key, msg))
        elif not res["samples"] and nodes > 8:
            res["samples"].append({"equation": key, "nodes": nodes})
    # the same members in source form (as written in the module, before sympy's automatic
    # evaluation can cancel or merge terms), obtained the way the documentation obtains them
    try:
        from .. import printspace
        import sympy as sp
        with time_limit(120):
            members = printspace.source_members(modname)
    except CaseTimeout:
        members = []
        res["undecided"].append((modname + ":source", "timeout"))
    except Exception as ex:
        members = []
        res["undecided"].append((modname + ":source", f"source form not loadable: {type(ex).__name__}"))
    for attr, value in members:
        vals = value if isinstance(value, (list, tuple)) else [value]
        for i, v in enumerate(vals):
            if not catalogue.is_equation(v):
                continue
            key = f"{modname}.{attr}" + (f"[{i}]" if len(vals) > 1 else "") + ":source"
            res["n"] += 1
            res["keys"].append(key)
            try:
                with time_limit(30):
                    verdict, msg, nodes, edges = eqdims.check_equation(v)
            except CaseTimeout:
                res["undecided"].append((key, "timeout"))
                continue
            res["states"] += nodes
            res["transitions"] += edges
            res["outcomes"]["source-" + verdict] = res["outcomes"].get("source-" + verdict, 0) + 1
            if verdict == "inhomogeneous":
                res["violations"].append((key, msg, {"module": modname, "attr": attr, "source": True,
                    "index": i}))
            elif verdict == "undecided":
                res["undecided"].append((key, msg))
    return res


def _creation_history() -> None:
    """history before any catalogue module is looked at (once per worker process): symbols,
    functions and quantities of unrelated dimensions are created from a second thread and in the
    main thread; the declared dimensions of the catalogue's symbols must not notice"""
    import threading
    import symplyphysics  # noqa: F401  (the shared symbols exist before the history starts)
    from sympy.physics import units as U
    from symplyphysics import Symbol, Function, Quantity, clone_as_symbol, symbols

    def create() -> None:
        for k in range(40):
            d = (U.charge, U.luminous_intensity, U.amount_of_substance / U.time, U.temperature**2)[k %
                4]
            Symbol(None, d)
            Symbol("t", d)
            Function(None, dimension=d)
            Quantity((k + 1) * U.candela)
            clone_as_symbol(symbols.time, subscript=str(k))

    th = threading.Thread(target=create)
    th.start()
    th.join()
    create()


def main(run: Run) -> int:
    mods = rotate(catalogue.discover(), run.seed * 31)
    nodes = edges = 0
    for r in pmap(_work, mods, chunksize=6, init=_creation_history):
        n = r.pop("n")
        run.evaluations += n
        r["n"] = 0
        nodes += r.pop("states")
        edges += r.pop("transitions")
        run.absorb([r])
    run.note(modules=len(mods), nodes_visited=nodes, edges_visited=edges)
    return run.finish(
        rule="one case per public equation attribute (Eq / relational / boolean combination / "
        "list element) of every module and package under laws/, definitions/, conditions/, plus "
        "every documented equation once more in its source (unevaluated) form; every "
        "node of the equation tree is assigned an exponent vector; all cases distinct and "
        "non-trivial",
        exhaustive=True,
        assumptions=["every worker first creates unrelated symbols / functions / quantities from a "
            "second thread and from the main thread (a harmless history on a correct tree)",
            "homogeneity is judged against declared dimensions", "plain sympy symbols "
            "(dummies, indices, field parameters) are wildcards", "functions other than exp / "
            "trigonometric / hyperbolic do not constrain their arguments (as the property words it)"])


def replay(case: dict) -> list[str]:
    if case.get("source"):
        from .. import printspace
        members = dict(printspace.source_members(case["module"]))
        v = members.get(case["attr"])
        vals = v if isinstance(v, (list, tuple)) else [v]
        verdict, msg, _, _ = eqdims.check_equation(vals[case.get("index", 0)])
        return [f"{case['module']}.{case['attr']} (source form): {msg}"] if verdict == \
            "inhomogeneous" else []
    mod = catalogue.load(case["module"])
    for attr, eq in catalogue.equations(mod):
        if attr == case["attr"]:
            v, msg, _, _ = eqdims.check_equation(eq)
            return [f"{case['module']}.{attr}: {msg}"] if v == "inhomogeneous" else []
    return [f"{case['module']}.{case['attr']} no longer exists"]

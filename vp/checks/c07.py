"""C07 - unit conversion is exact, invertible and scale-consistent (finite table, exhaustive)."""
from __future__ import annotations

import itertools
from fractions import Fraction
from typing import Any

import mpmath
import sympy as sp

from .. import catalogue, dims, values
from ..harness import Run, pmap, rotate, short

PROPERTY = "C07"
LEVEL = "exploration"

MAGS = [("1", sp.Integer(1)), ("7/3", sp.Rational(7, 3)), ("1e-12", sp.Rational(1, 10**12)),
    ("1e12", sp.Integer(10**12)), ("-2.5", sp.Rational(-5, 2))]
REFUSAL = (ValueError, TypeError)

_U: dict[str, Any] = {}  # spelling name -> (sympy expr, exact SI factor, DimVec)


def _setup() -> None:
    if _U:
        return
    from sympy.physics import units as U
    from symplyphysics.core.symbols.prefixes import prefixes
    for n, (f, d) in values.UNITS.items():
        if hasattr(U, n):
            _U[n] = (getattr(U, n), values.S(f), d)
    for pn, e in values.PREFIXES.items():
        p = getattr(prefixes, pn)
        for un in ("meter", "gram", "second"):
            f, d = values.UNITS[un]
            _U[f"{pn}*{un}"] = (p * getattr(U, un), sp.Integer(10)**e * values.S(f), d)
    comp = {
        "kilo*meter/hour": (prefixes.kilo * U.meter / U.hour, sp.Rational(1000, 3600), dims.L / dims.T),
        "newton*meter": (U.newton * U.meter, 1, dims.M * dims.L**2 / dims.T**2),
        "kilo*watt*hour": (prefixes.kilo * U.watt * U.hour, 3600000, dims.M * dims.L**2 / dims.T**2),
        "gram/centimeter**3": (U.gram / U.centimeter**3, 1000, dims.M / dims.L**3),
        "meter/second**2": (U.meter / U.second**2, 1, dims.L / dims.T**2),
        "radian/second": (U.radian / U.second, 1, dims.T**-1),
        "1/minute": (1 / U.minute, sp.Rational(1, 60), dims.T**-1),
        "volt/meter": (U.volt / U.meter, 1, dims.M * dims.L / (dims.T**3 * dims.I)),
        "joule/(kilogram*kelvin)": (U.joule / (U.kilogram * U.kelvin), 1, dims.L**2 / (dims.T**2 *
        dims.TH)),
        "sqrt(meter)": (sp.sqrt(U.meter), 1, dims.L**Fraction(1, 2)),
        "1": (sp.Integer(1), 1, dims.ONE),
        # dimensions outside the seven SI base dimensions are dimensions too
        "bit": (U.bit, 1, dims.base("information")),
        "byte": (U.byte, 8, dims.base("information")),
        "byte/second": (U.byte / U.second, 8, dims.base("information") / dims.T),
        "byte*meter": (U.byte * U.meter, 8, dims.base("information") * dims.L),
        # prefixes whose base is not ten, left as prefix objects inside the expression
        "byte*kibi": (U.byte * U.kibi, 8 * 1024, dims.base("information")),
        "bit*mebi": (U.bit * U.mebi, 2**20, dims.base("information")),
        "meter*kibi": (U.meter * U.kibi, 1024, dims.L),
        "kibi**2*second": (U.second * U.kibi**2, 1024**2, dims.T),
    }
    for n, (e, f, d) in comp.items():
        _U[n] = (e, sp.sympify(f), d)


def lib_convert(q: Any, target: Any) -> Any:
    from symplyphysics import convert_to
    try:
        return convert_to(q, target)
    except REFUSAL as ex:
        return ex


def eq_exact(a: Any, b: Any) -> bool:
    a, b = sp.sympify(a), sp.sympify(b)
    if a == b:
        return True
    d = sp.simplify(a - b)
    if d == 0:
        return True
    try:
        return values.close(values.mpc(a), values.mpc(b), 1e-14)
    except Exception:
        return False


def pair_cases(an: str) -> list[tuple[str, str]]:
    from symplyphysics import Quantity, convert_to_si, convert_to_float
    from symplyphysics.core.dimensions import dimension_to_si_unit
    ae, af, ad = _U[an]
    out = []
    for mn, m in MAGS:
        q = Quantity(m * ae)
        si = m * af
        # own SI unit
        if any(b not in dims.BASES for b in ad.e):
            # a dimension outside the SI base dimensions has no SI unit: nothing to convert to, and
            # it must not be mistaken for a number
            try:
                got = convert_to_si(q)
                bad = f"convert_to_si({mn} {an}) = {short(got)} although {ad} has no SI unit"
            except REFUSAL:
                bad = ""
            out.append((f"si:{an}:{mn}", bad))
        else:
            got = convert_to_si(q)
            out.append((f"si:{an}:{mn}", "" if eq_exact(got, si) else
                f"convert_to_si({mn} {an}) = {short(got)}, reference {short(si)}"))
            unit = dimension_to_si_unit(q.dimension)
            want_unit = catalogue.si_unit_of(ad)
            if sp.simplify(unit / want_unit) != 1:
                out.append((f"siunit:{an}", f"dimension_to_si_unit gives {unit}, reference "
                    f"{want_unit}"))
        if ad.dimensionless:
            try:
                f = convert_to_float(q)
                ok = values.close(f, values.mpc(si), 1e-14)
            except Exception as ex:
                ok, f = False, ex
            out.append((f"float:{an}:{mn}", "" if ok else f"convert_to_float = {short(f)}, "
                f"reference {short(si)}"))
        for bn, (be, bf, bd) in _U.items():
            got = lib_convert(q, be)
            key = f"pair:{an}->{bn}:{mn}"
            if ad == bd:
                want = si / bf
                if isinstance(got, Exception):
                    out.append((key, f"refused ({type(got).__name__}) but dimensions are equivalent"))
                elif not eq_exact(got, want):
                    out.append((key, f"convert_to = {short(got)}, reference {short(want)}"))
                else:
                    out.append((key, ""))
                    if mn == "7/3":
                        # inverse: n * b converted back to a gives m
                        back = lib_convert(Quantity(got * be), ae)
                        out.append((f"inverse:{an}->{bn}", "" if not isinstance(back, Exception) and
                            eq_exact(back, m) else f"round trip gives {short(back)}, reference {m}"))
            else:
                out.append((key, "" if isinstance(got, Exception) else
                    f"conversion between inequivalent dimensions {ad} and {bd} returned {short(got)}"))
    return out


def triple_cases(cls: list[str]) -> list[tuple[str, str]]:
    from symplyphysics import Quantity
    out = []
    m = sp.Rational(7, 3)
    for a, b, c in itertools.permutations(cls, 3):
        q = Quantity(m * _U[a][0])
        n1 = lib_convert(q, _U[b][0])
        if isinstance(n1, Exception):
            out.append((f"compose:{a}->{b}->{c}", f"first leg refused: {n1}"))
            continue
        n2 = lib_convert(Quantity(n1 * _U[b][0]), _U[c][0])
        direct = lib_convert(q, _U[c][0])
        ok = not isinstance(n2, Exception) and not isinstance(direct, Exception) and eq_exact(n2,
            direct)
        out.append((f"compose:{a}->{b}->{c}", "" if ok else
            f"via {b}: {short(n2)}, direct: {short(direct)}"))
    return out


def expression_cases() -> list[tuple[str, str]]:
    from symplyphysics import Quantity
    from symplyphysics.core.convert import evaluate_expression, evaluate_quantity
    from sympy.physics.units import Quantity as SymQuantity
    out = []
    names = ["kilometer", "gram", "minute", "electronvolt", "liter", "bar", "degree", "newton",
        "kilo*watt*hour", "inch", "hour", "centimeter"]
    qs = {n: (Quantity(sp.Rational(5, 3) * _U[n][0]), sp.Rational(5, 3) * _U[n][1]) for n in names}
    x = sp.Symbol("x")
    shapes = [
        ("a*b", lambda a, b: a * b), ("a/b", lambda a, b: a / b), ("a+2*a", lambda a, b: a + 2 * a),
        ("a**2*b", lambda a, b: a**2 * b), ("sqrt(a)*b", lambda a, b: sp.sqrt(a) * b),
        ("x*a+b*x**2", lambda a, b: x * a + b * x**2), ("exp(a/a)*b", lambda a, b: sp.exp(a / a) * b),
    ]
    for (an, (qa, va)), (bn, (qb, vb)) in itertools.permutations(qs.items(), 2):
        for sn, fn in shapes:
            for ev in (False, True):
                key = f"expr:{sn}:{an}:{bn}:{'evalf' if ev else 'exact'}"
                e = fn(qa, qb)
                want = fn(va, vb)
                try:
                    got = evaluate_expression(e, evaluate=ev)
                except Exception as ex:
                    out.append((key, f"raised {type(ex).__name__}: {short(ex)}"))
                    continue
                if got.atoms(SymQuantity):
                    out.append((key, f"quantities left in {short(got)}"))
                    continue
                d = sp.N((got - want).subs(x, sp.Rational(3, 7)), 30)
                w = sp.N(want.subs(x, sp.Rational(3, 7)), 30)
                ok = abs(d) <= 1e-13 * abs(w)
                out.append((key, "" if ok else f"value changed: {short(got)} vs {short(want)}"))
    for n, (q, v) in qs.items():
        eq = evaluate_quantity(q)
        ok = values.close(values.raw_to_si(eq.scale_factor, _U[n][2]), values.mpc(v), 1e-14) and \
            dims.of_dimension(eq.dimension) == _U[n][2]
        out.append((f"evalq:{n}", "" if ok else f"evaluate_quantity changed {n}"))
    return out


def library_target_cases() -> list[tuple[str, str]]:
    """targets that are expressions over the library's own quantities (a measured rod, a step
    length), including quantities that print alike; every ordered pair of conversions is run from
    the initial state of the process, and both answers are compared with the reference"""
    from .c03 import in_child
    from sympy.physics import units as U
    specs = [("rod-a", sp.Rational(12341, 10000), None), ("rod-b", sp.Rational(12349, 10000), None),
        ("step-a", sp.Rational(4, 5), "step"), ("step-b", sp.Rational(8, 5), "step"),
        ("bar-a", sp.Rational(5, 2), "L_0"), ("bar-b", sp.Rational(5, 2), "L_1")]
    shapes = {
        "q": (lambda q: q, lambda v: v, dims.L),
        "2*q": (lambda q: 2 * q, lambda v: 2 * v, dims.L),
        "q*minute/second": (lambda q: q * U.minute / U.second, lambda v: 60 * v, dims.L),
        "q**2": (lambda q: q**2, lambda v: v**2, dims.L**2),
        "newton*q": (lambda q: U.newton * q, lambda v: v, dims.M * dims.L**2 / dims.T**2),
    }
    out = []
    for sname, (mk, fac, dv) in shapes.items():
        value_unit = catalogue.si_unit_of(dv)
        for (n1, v1, d1), (n2, v2, d2) in itertools.permutations(specs, 2):

            def run(mk: Any = mk, v1: Any = v1, d1: Any = d1, v2: Any = v2, d2: Any = d2) -> list:
                from symplyphysics import Quantity, convert_to
                x = Quantity(100 * value_unit)
                qs = [Quantity(v * U.meter, **({"display_symbol": d} if d else {})) for v, d in ((v1,
                    d1), (v2, d2))]
                res = []
                for q in qs:
                    try:
                        res.append(str(sp.nsimplify(convert_to(x, mk(q)), rational=True)))
                    except Exception as ex:
                        res.append(f"error {type(ex).__name__}: {ex}")
                return res

            got = in_child(run, timeout=60)
            key = f"libtarget:{sname}:{n1}>{n2}"
            if isinstance(got, dict):
                out.append((key, f"crashed: {got.get('error')}"))
                continue
            want = [sp.Integer(100) / fac(v1), sp.Integer(100) / fac(v2)]
            bad = ""
            for i, (g, w) in enumerate(zip(got, want)):
                try:
                    if not eq_exact(sp.sympify(g), w):
                        bad = (f"conversion {i + 1} of the sequence (target {sname} over {(n1, n2)[i]}) "
                            f"gives {g}, reference {w}")
                        break
                except Exception:
                    bad = f"conversion {i + 1} of the sequence failed: {g}"
                    break
            out.append((key, bad))
    return out


def celsius_cases() -> list[tuple[str, str]]:
    from symplyphysics.core.symbols.celsius import (Celsius, to_kelvin, from_kelvin,
        to_kelvin_quantity, from_kelvin_quantity)
    from symplyphysics import Quantity
    from symplyphysics.core.symbols.prefixes import prefixes
    from sympy.physics import units as U
    out = []
    for c in (-273.15, -40.0, 0.0, 36.6, 100.0, 1e4, -0.5, 1e-3):
        k = to_kelvin(Celsius(c))
        out.append((f"celsius:offset:{c}", "" if abs((k - c) - 273.15) <= 1e-9 * max(1, abs(c))
            else f"to_kelvin({c}) = {k}"))
        back = from_kelvin(k).value
        out.append((f"celsius:roundtrip:{c}", "" if abs(back - c) <= 1e-9 * max(1, abs(c)) else
            f"from_kelvin(to_kelvin({c})) = {back}"))
        kq = to_kelvin_quantity(Celsius(c))
        si = values.raw_to_si(kq.scale_factor, dims.TH)
        ok = dims.of_dimension(kq.dimension) == dims.TH and values.close(si, c + 273.15, 1e-12, 1e-9)
        out.append((f"celsius:quantity:{c}", "" if ok else f"to_kelvin_quantity({c}) = {kq}"))
        try:
            cq = from_kelvin_quantity(kq).value
            msg = "" if abs(cq - c) <= 1e-9 * max(1, abs(c)) else \
                f"from_kelvin_quantity(to_kelvin_quantity({c})) = {cq}"
        except Exception as ex:
            msg = f"from_kelvin_quantity(to_kelvin_quantity({c})) raised {type(ex).__name__}: {ex}"
        out.append((f"celsius:fromquantity:{c}", msg))
        if c + 273.15 == 0:
            continue  # 0 * milli * kelvin is the plain number 0, not a temperature
        # the same temperature spelled in millikelvin
        mk = Quantity((c + 273.15) * 1000 * prefixes.milli * U.kelvin)
        try:
            cq2 = from_kelvin_quantity(mk).value
            msg = "" if abs(cq2 - c) <= 1e-9 * max(1, abs(c)) else \
                f"from_kelvin_quantity of {c + 273.15} K written in mK = {cq2}"
        except Exception as ex:
            msg = f"from_kelvin_quantity of {c + 273.15} K written in mK raised {type(ex).__name__}"
        out.append((f"celsius:millikelvin:{c}", msg))
    # just above absolute zero (the float spacing of Celsius values there is 6e-14): the quantity
    # helpers agree with the scalar ones to the last digits - no absolute slack, a nanokelvin is a
    # temperature
    for e in range(1, 13):
        for mant in (1.0, 2.5, 5.0, 9.9):
            c = -273.15 + mant * 10.0**-e
            k = to_kelvin(Celsius(c))
            if k <= 0:
                continue
            key = f"celsius:near-zero:{mant}e-{e}"
            try:
                kq = to_kelvin_quantity(Celsius(c))
                si = values.raw_to_si(kq.scale_factor, dims.TH)
                msg = ""
                if dims.of_dimension(kq.dimension) != dims.TH or abs(complex(si) - k) > 1e-12 * k:
                    msg = f"to_kelvin_quantity({c!r}) = {kq} but to_kelvin gives {k!r}"
                else:
                    cq = from_kelvin_quantity(kq).value
                    if abs(cq - c) > 1e-12:
                        msg = f"from_kelvin_quantity(to_kelvin_quantity({c!r})) = {cq!r}"
                    cq3 = from_kelvin_quantity(Quantity(k * U.kelvin)).value
                    if not msg and abs(cq3 - from_kelvin(k).value) > 1e-12:
                        msg = f"from_kelvin_quantity({k!r} K) = {cq3!r}, from_kelvin = {from_kelvin(k).value!r}"
            except Exception as ex:  # pylint: disable=broad-except
                msg = f"Celsius helpers raised {type(ex).__name__}: {ex}"
            out.append((key, msg))
    # the quantity helper converts temperatures only: every unit of the table (and powers and
    # quotients of kelvin) whose dimension is not temperature must be refused, every temperature
    # spelling accepted with the reference value
    pool = [(n, u, f, d) for n, (u, f, d) in _U.items()]
    pool += [("kelvin**2", U.kelvin**2, sp.Integer(1), dims.TH**2),
        ("1/kelvin", 1 / U.kelvin, sp.Integer(1), dims.TH**-1),
        ("kelvin/meter", U.kelvin / U.meter, sp.Integer(1), dims.TH / dims.L),
        ("sqrt(kelvin)", sp.sqrt(U.kelvin), sp.Integer(1), dims.TH**Fraction(1, 2)),
        ("boltzmann*kelvin", U.boltzmann_constant * U.kelvin, None, dims.M * dims.L**2 / dims.T**2),
        ("milli*kelvin", prefixes.milli * U.kelvin, sp.Rational(1, 1000), dims.TH)]
    for n, u, f, d in pool:
        for m in (sp.Rational(5, 2), sp.Integer(300)):
            try:
                q = Quantity(m * u)
            except Exception:
                continue
            try:
                got: Any = from_kelvin_quantity(q).value
            except Exception as ex:
                got = ex
            key = f"celsius:helper-domain:{m}*{n}"
            if dims.same(d, dims.TH):
                want = float(m * f) - 273.15
                ok = not isinstance(got, Exception) and abs(got - want) <= 1e-9 * max(1, abs(want))
                out.append((key, "" if ok else f"from_kelvin_quantity({m}*{n}) = {short(got)}, "
                    f"reference {want}"))
            else:
                out.append((key, "" if isinstance(got, Exception) else
                    f"from_kelvin_quantity accepted {m}*{n} of dimension {d} and returned {got}"))
    for kv in (0.0, 1.0, 273.15, 300.0, 5778.0):
        c = from_kelvin(kv).value
        out.append((f"kelvin:offset:{kv}", "" if abs((kv - c) - 273.15) <= 1e-9 else
            f"from_kelvin({kv}) = {c}"))
        out.append((f"kelvin:roundtrip:{kv}", "" if abs(to_kelvin(from_kelvin(kv)) - kv) <= 1e-9
            else "to_kelvin(from_kelvin(k)) != k"))
    return out


def _work(item: tuple) -> dict:
    _setup()
    kind, payload = item
    if kind == "pairs":
        cases = pair_cases(payload)
    elif kind == "triples":
        cases = triple_cases(payload)
    elif kind == "expr":
        cases = expression_cases()
    elif kind == "libtarget":
        cases = library_target_cases()
    else:
        cases = celsius_cases()
    res: dict[str, Any] = {"n": len(cases), "keys": [k for k, _ in cases], "outcomes": {},
        "violations": [], "samples": [cases[len(cases) // 2][0]] if cases else []}
    for k, v in cases:
        res["outcomes"]["agree" if not v else "differ"] = res["outcomes"].get("agree" if not v else
            "differ", 0) + 1
        if v:
            res["violations"].append((k, v, {"item": [kind, payload], "key": k}))
    return res


def main(run: Run) -> int:
    _setup()
    items: list[tuple] = [("pairs", n) for n in _U]
    classes: dict[Any, list[str]] = {}
    for n, (_, _, d) in _U.items():
        classes.setdefault(d.key(), []).append(n)
    for cls in classes.values():
        if len(cls) >= 3:
            # classes of SI-prefixed spellings are large; triples over the first 12 members in
            # quick, all members in thorough
            members = cls if run.thorough else cls[:12]
            items.append(("triples", members))
    items += [("expr", None), ("celsius", None), ("libtarget", None)]
    for r in pmap(_work, rotate(items, run.seed)):
        n = r.pop("n")
        run.evaluations += n
        r["n"] = 0
        run.absorb([r])
    run.note(units=len(_U), dimension_classes=len(classes))
    return run.finish(
        rule="all ordered pairs of the unit table x 5 magnitudes (conversion or refusal), SI "
        "conversion of every unit, inverse round trips, all ordered triples inside each dimension "
        "class, evaluate_expression over 7 expression shapes x ordered pairs of 12 quantities x "
        "{exact, evalf}, Celsius/kelvin grid; targets that are expressions over library quantities (5 "
        "shapes x all ordered pairs of 6 quantities, some printing alike), each pair of conversions "
        "run from the initial state in a forked child; distinct = distinct case keys",
        exhaustive=True,
        assumptions=["SI factors in vp/values.py typed from the SI brochure (not read from sympy)",
            "exact comparison for rational factors, 1e-14 relative where pi or floats occur"])


def replay(case: dict) -> list[str]:
    _setup()
    kind, payload = case["item"]
    r = _work((kind, payload))
    return [f"{k}: {w}" for k, w, _ in r["violations"] if k == case["key"]]

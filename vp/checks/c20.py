"""C20 - physical constants carry reference values and dimensions (finite table, exhaustive)."""
from __future__ import annotations

import importlib
import json
import math
import os
from fractions import Fraction

from ..harness import short, ROOT, Run
from .. import catalogue, dims

PROPERTY = "C20"
LEVEL = "exploration"
REF = os.path.join(ROOT, "data", "constants_ref.json")


def _si_value(q) -> complex:
    """SI value from the raw (gram-based) scale factor and our own mass exponent."""
    dv = dims.of_dimension(q.dimension)
    mexp = dv.e.get("mass", Fraction(0)) if isinstance(dv, dims.DimVec) else Fraction(0)
    raw = complex(q.scale_factor.evalf(30))
    return raw * (1000.0**(-float(mexp)))


def _load():
    import sympy.physics.units as u
    mod = importlib.import_module("symplyphysics.quantities")
    consts = {
        n: v for n, v in vars(mod).items() if isinstance(v, u.Quantity) and not n.startswith("_")
    }
    return mod, consts


def _check_constant(name: str, q, ref: dict) -> list[str]:
    out = []
    want = dims.DimVec({b: Fraction(e) for b, e in zip(dims.BASES, ref["dim"])})
    got = dims.of_dimension(q.dimension)
    if not (isinstance(got, dims.DimVec) and got == want):
        out.append(f"dimension of {name} is {got}, reference {want}")
    val = _si_value(q)
    rv = ref["value"]
    if not (abs(val.imag) == 0 and math.isfinite(val.real) and
        abs(val.real - rv) <= ref["tol"] * abs(rv)):
        out.append(f"SI value of {name} is {val.real!r}, reference {rv!r} +- {ref['tol']:g} rel")
    # the library's own SI conversion must tell the same story
    from symplyphysics import convert_to_si
    lib = complex(convert_to_si(q).evalf(30))
    if abs(lib - val) > 1e-12 * abs(val):
        out.append(f"convert_to_si({name}) = {lib!r} but raw scale gives {val!r}")
    # ... and so must the unit system the constants are registered in (what sympy's own
    # convert_to, Quantity.convert_to and get_quantity_dimension read)
    import sympy as sp
    from sympy.physics.units import convert_to as sympy_convert_to
    from symplyphysics import SI
    try:
        reg = dims.of_dimension(SI.get_quantity_dimension(q))
    except Exception as ex:  # pylint: disable=broad-except
        reg = f"{type(ex).__name__}"
    if not (isinstance(reg, dims.DimVec) and reg == want):
        out.append(f"dimension of {name} registered in the SI unit system is {reg}, reference {want}")
    else:
        unit = catalogue.si_unit_of(want)
        try:
            conv = sympy_convert_to(q, unit) if unit != 1 else q.scale_factor
            num = complex(sp.N(sp.sympify(conv) / unit, 30))
            if abs(num - val) > 1e-12 * abs(val):
                out.append(f"sympy's convert_to({name}, {unit}) gives {num!r}, raw scale {val!r}")
        except Exception as ex:  # pylint: disable=broad-except
            out.append(f"sympy's convert_to({name}, {unit}) raised {type(ex).__name__}")
    return out


def _check_identity(ident: dict, consts: dict) -> list[str]:
    import sympy as sp
    env = {n: sp.Float(_si_value(q).real, 30) for n, q in consts.items()}
    env["pi"] = sp.pi
    lhs = complex(sp.sympify(ident["lhs"], locals=env).evalf(30))
    rhs = complex(sp.sympify(ident["rhs"], locals=env).evalf(30))
    if abs(lhs - rhs) > ident["tol"] * max(abs(lhs), abs(rhs)):
        return [f"identity {ident['name']} fails: {lhs.real!r} vs {rhs.real!r} (tol {ident['tol']:g})"]
    # dimensions of both sides
    denv = {n: sp.Symbol(n) for n in consts}
    out = []

    def dim_of(text: str):
        e = sp.sympify(text, locals={**denv, "pi": sp.pi})
        return _dim_expr(e, consts)

    dl, dr = dim_of(ident["lhs"]), dim_of(ident["rhs"])
    if dl != dr:
        out.append(f"identity {ident['name']}: dimensions differ {dl} vs {dr}")
    return out


def _dim_expr(e, consts) -> dims.DimVec:
    import sympy as sp
    if e.is_Number or e == sp.pi:
        return dims.ONE
    if isinstance(e, sp.Symbol):
        d = dims.of_dimension(consts[e.name].dimension)
        assert isinstance(d, dims.DimVec)
        return d
    if isinstance(e, sp.Mul):
        r = dims.ONE
        for a in e.args:
            r = r * _dim_expr(a, consts)
        return r
    if isinstance(e, sp.Pow):
        return _dim_expr(e.base, consts)**e.exp
    raise ValueError(e)


def _operations() -> dict:
    import sympy as sp
    from sympy.physics import units as U
    from symplyphysics import Quantity, convert_to, convert_to_si, clone_as_symbol
    from symplyphysics.core.convert import evaluate_quantity, evaluate_expression
    from symplyphysics.docs.printer_code import code_str
    from symplyphysics.docs.printer_latex import latex_str
    return {
        "Quantity(q)": lambda q: Quantity(q),
        "Quantity(q, dimension=1)": lambda q: Quantity(q, dimension=U.Dimension(1)),
        "Quantity(q, dimension=length)": lambda q: Quantity(q, dimension=U.length),
        "Quantity(q, display_symbol)": lambda q: Quantity(q, display_symbol="renamed"),
        "Quantity(2*q)": lambda q: Quantity(2 * q),
        "Quantity(q**2)": lambda q: Quantity(q**2),
        "Quantity(q/q)": lambda q: Quantity(q / q),
        "abs(q)": lambda q: abs(q),
        "convert_to_si(q)": lambda q: convert_to_si(q),
        "convert_to(q, q)": lambda q: convert_to(q, q),
        "evaluate_quantity(q)": lambda q: evaluate_quantity(q),
        "evaluate_expression(3*q)": lambda q: evaluate_expression(3 * q),
        # the same entry points with their optional arguments (low precision, evaluation on)
        "evaluate_quantity(q, n=3)": lambda q: evaluate_quantity(q, n=3),
        "evaluate_quantity(q, n=50)": lambda q: evaluate_quantity(q, n=50),
        "evaluate_expression(3*q, True, n=3)": lambda q: evaluate_expression(3 * q, True, n=3),
        "evaluate_expression(q, evaluate=True)": lambda q: evaluate_expression(q, evaluate=True),
        "q.evalf(3)": lambda q: q.evalf(3),
        "N(2*q, 3)": lambda q: sp.N(2 * q, 3),
        "convert_to(q, 1000*q)": lambda q: convert_to(q, 1000 * q),
        "Quantity(q).scale_factor.evalf(3)": lambda q: Quantity(q).scale_factor.evalf(3),
        "q.subs / solve": lambda q: sp.solve(sp.Symbol("x") * q - 1, sp.Symbol("x")),
        "simplify(q + q)": lambda q: sp.simplify(q + q),
        "N(q)": lambda q: sp.N(q),
        "print": lambda q: (code_str(q), latex_str(q), str(q)),
        # an anonymous copy prints as "<SI value to 3 digits>*<SI units>": a read path of its own
        "str(Quantity(1*q))": lambda q: str(Quantity(1 * q)),
        "str(Quantity(q**2))": lambda q: str(Quantity(q**2)),
        "str(Quantity(1/q))": lambda q: str(Quantity(1 / q)),
    }


def operation_histories(consts: dict, ref: dict) -> list:
    """apply every operation to every constant, re-check that constant (and, once per operation,
    the whole table) afterwards"""
    out = []
    for opname, op in _operations().items():
        for n, q in sorted(consts.items()):
            if n not in ref["constants"]:
                continue
            try:
                r = op(q)
            except Exception:
                r = None  # refusing is fine; corrupting the table is not
            msgs = _check_constant(n, q, ref["constants"][n])
            # operations that answer with the SI value of the constant: that value, too
            expect = {"convert_to_si(q)": (1, 1e-12), "evaluate_expression(q, evaluate=True)": (1,
                1e-12), "evaluate_expression(3*q)": (3, 1e-12), "evaluate_expression(3*q, True, n=3)":
                (3, 1e-2)}.get(opname)
            if expect is not None and r is not None:
                try:
                    num = complex(__import__("sympy").N(r, 30))
                    val = _si_value(q) * expect[0]
                    if abs(num - val) > expect[1] * abs(val):
                        msgs.append(f"{opname} answers {num!r} for {n}, SI value {val!r}")
                except (TypeError, ValueError):
                    msgs.append(f"{opname} answers {short(r)} for {n}, which is not a number")
            power = {"str(Quantity(1*q))": 1, "str(Quantity(q**2))": 2, "str(Quantity(1/q))": -1}.get(
                opname)
            if power is not None and isinstance(r, str):
                import re
                m_ = re.match(r"^\s*(-?\d+(?:\.\d*)?(?:[eE][+-]?\d+)?)", r)
                val = _si_value(q)**power
                if m_ is None:
                    msgs.append(f"{opname} prints {r!r} for {n}: no leading SI value")
                elif abs(float(m_.group(1)) - val) > 6e-3 * abs(val):
                    msgs.append(f"{opname} prints {r!r} for {n}, SI value {val!r}")
            if r is q and opname.startswith(("Quantity(", "evaluate_quantity(")):
                msgs.append(f"{opname} returned the catalogue object itself instead of a new quantity")
            out.append((opname, n, "; ".join(f"after {opname}: {m}" for m in msgs)))
        for n, q in sorted(consts.items()):
            if n in ref["constants"]:
                msgs = _check_constant(n, q, ref["constants"][n])
                if msgs:
                    out.append((opname + ":table", n, "; ".join(f"after {opname} on all constants: {m}"
                        for m in msgs)))
    return out


COUNTER_BOUNDARIES = [1000, 10000, 65536, 100000, 131072, 1000000, 1048576]


def _after_counter(boundary: int, consts: dict, ref: dict) -> list[tuple[str, str]]:
    from sympy.physics import units as U
    from symplyphysics import Quantity
    from symplyphysics.core.symbols import id_generator as G
    try:
        cur = int(G.last_id("QTY"))
    except KeyError:
        cur = 0
    while cur < boundary - 3:
        prev = cur
        cur = G.next_id("QTY")  # the public counter; creating a million quantities is too slow
        if cur <= prev:
            return [("counter", f"the generated-name counter went from {prev} to {cur}: names are "
                "being reused")]
    made = [Quantity((5 + i) * U.meter) for i in range(60)]
    out = []
    for n, q in sorted(consts.items()):
        if n in ref["constants"]:
            for m in _check_constant(n, q, ref["constants"][n]):
                out.append((n, m))
    # ... and the new quantities are themselves intact
    for i, q in enumerate(made):
        if q.scale_factor != 5 + i:
            out.append((f"new{i}", f"quantity created as {5 + i} m reads {q.scale_factor}"))
            break
    return out


def main(run: Run) -> int:
    with open(REF) as f:
        ref = json.load(f)
    mod, consts = _load()
    exported = list(getattr(mod, "__all__", []))
    # every exported name exists and is a quantity
    for n in exported:
        ok = n in consts
        run.case(f"export:{n}", outcome="export_ok" if ok else "export_bad")
        if not ok:
            run.violation(f"export:{n}", f"__all__ exports {n!r} which is not a module-level Quantity",
                {"kind": "export", "name": n})
    for n, q in sorted(consts.items()):
        if n not in ref["constants"]:
            run.undecide(n, "constant has no entry in data/constants_ref.json")
            continue
        for aspect in ("dimension", "value"):
            run.case(f"{n}:{aspect}", outcome="checked")
        msgs = _check_constant(n, q, ref["constants"][n])
        for m in msgs:
            run.violation(f"constant:{n}:{'dimension' if 'dimension' in m else 'value'}", m,
                {"kind": "constant", "name": n})
        run.sample({"constant": n, "si_value": repr(_si_value(q).real),
            "dimension": repr(dims.of_dimension(q.dimension)), "reference": ref["constants"][n]["value"]})
    for n in ref["constants"]:
        if n not in consts:
            run.case(f"missing:{n}", outcome="missing")
            run.violation(f"missing:{n}", f"reference constant {n} is no longer defined", {"kind":
                "missing", "name": n})
    # the table is process-global state: it must still be right after ordinary public operations
    # on its entries (every constant x every operation, table re-read after each)
    for opname, n, msg in operation_histories(consts, ref):
        run.case(f"after:{opname}:{n}", outcome="after-operation")
        if msg:
            run.violation(f"after:{opname}:{n}", msg, {"kind": "operation", "name": n, "op": opname})
    for ident in ref["identities"]:
        run.case(f"identity:{ident['name']}", outcome="identity")
        try:
            msgs = _check_identity(ident, consts)
        except KeyError as e:
            msgs = [f"identity {ident['name']}: constant {e} missing"]
        for m in msgs:
            run.violation(f"identity:{ident['name']}", m, {"kind": "identity", "name": ident["name"]})
    # long creation histories: the generated-name counter just below a digit-count or
    # power-of-two boundary, then a batch of new quantities; the table must still be right
    from .c03 import in_child
    for boundary in COUNTER_BOUNDARIES if run.thorough else COUNTER_BOUNDARIES[:5]:
        res = in_child(lambda b=boundary: _after_counter(b, consts, ref), timeout=600)
        run.case(f"counter:{boundary}", outcome="after-long-history")
        if isinstance(res, dict) and "error" in res:
            run.undecide(f"counter:{boundary}", res["error"])
            continue
        for n, m in res:
            run.violation(f"counter:{boundary}:{n}", f"after advancing the quantity counter to "
                f"{boundary} - 3 and creating 60 quantities: {m}", {"kind": "counter", "boundary":
                boundary, "name": n})
    return run.finish(
        rule="one case per (module-level Quantity of symplyphysics.quantities x {dimension, SI value}), "
        "per __all__ entry, per listed identity, and per (public operation, constant) pair with the "
        "constant re-read after the operation; the table re-read after the name counter crossed each "
        "digit-count / power-of-two boundary and 60 quantities were created; all are distinct and non-trivial (each compares "
        "library data with an independent reference entry)",
        exhaustive=True,
        assumptions=["reference table data/constants_ref.json (CODATA 2018, IAU 2015) typed by hand",
            "tolerance per constant = precision claimed by the library's literal/docstring"])


def replay(case: dict) -> list[str]:
    with open(REF) as f:
        ref = json.load(f)
    mod, consts = _load()
    k = case["kind"]
    if k == "export":
        return [] if case["name"] in consts else [f"{case['name']} exported but undefined"]
    if k == "missing":
        return [] if case["name"] in consts else [f"{case['name']} missing"]
    if k == "constant":
        return _check_constant(case["name"], consts[case["name"]], ref["constants"][case["name"]])
    if k == "identity":
        ident = [i for i in ref["identities"] if i["name"] == case["name"]][0]
        return _check_identity(ident, consts)
    if k == "counter":
        from .c03 import in_child
        res = in_child(lambda: _after_counter(case["boundary"], consts, ref), timeout=600)
        return [m for n, m in res if n == case["name"]] if isinstance(res, list) else [str(res)]
    if k == "operation":
        return [m for o, n, m in operation_histories(consts, ref) if m and n == case["name"] and
            o == case["op"]]
    return [f"unknown case kind {k}"]

"""C18 - LaTeX rendering of formulas is well-formed and meaning-preserving.

Same expression spaces as C17.  Every rendering goes through the brace / delimiter automaton;
renderings inside the reader's grammar are read as mathematics (all conventional readings) and
compared by value with the original; a rendering the reader cannot read is undecided, never a
violation.
"""
from __future__ import annotations

import re
from typing import Any, Optional

import mpmath
import sympy as sp
from sympy.physics.units import Quantity as SymQuantity

from .. import catalogue, explore, parse_latex, printspace, values
from ..harness import Run, pmap, rotate, short, time_limit, CaseTimeout
from .c17 import POINTS, _hval, display_of, INTERNAL

PROPERTY = "C18"
LEVEL = "exploration"


def matches(vals: list, want: Any, tol: float) -> bool:
    return any(values.close(v, want, tol, 1e-40) for v in vals if not (mpmath.isnan(v)))


def matrix_case(r: int, c: int, rot: int, immutable: bool) -> tuple[str, str, str]:
    from symplyphysics.docs.printer_latex import latex_str
    rows = printspace.matrix_entries(r, c, rot)
    M = (sp.ImmutableMatrix if immutable else sp.Matrix)(rows)
    tex = latex_str(M)
    key = f"matrix:{r}x{c}:{rot}:{'immutable' if immutable else 'mutable'}"
    bad = parse_latex.well_formed(tex)
    if bad:
        return key, "matrix", f"{tex!r}: {bad}"
    m = re.fullmatch(r"\\begin\{(\w+)\}\s*(.*?)\s*\\end\{(\w+)\}", tex, re.S)
    if not m or m.group(1) != m.group(3):
        return key, "matrix", f"{r} x {c} matrix rendered as {tex!r}: not one matrix environment"
    body = m.group(2)
    got = [printspace.split_top(row, "&", "{", "}") for row in printspace.split_top(body, "\\\\",
        "{", "}")]
    if [len(x) for x in got] != [c] * r:
        return key, "matrix", (f"{r} x {c} matrix rendered as {tex!r}: row lengths "
            f"{[len(x) for x in got]}")
    syms = printspace.symbols()
    tokens = {latex_str(s_): s_ for s_ in syms}
    for i in range(r):
        for j in range(c):
            e = sp.sympify(rows[i][j])
            try:
                tree = parse_latex.read(got[i][j], list(tokens))
            except parse_latex.Unread as ex:
                return key, "matrix", f"entry {got[i][j]!r} of {tex!r} cannot be read: {ex}"
            for pt in POINTS:
                env = {t: printspace.point_mp(pt[s_.display_name]) for t, s_ in tokens.items()}
                rep = {s_: printspace.point_value(pt[s_.display_name]) for s_ in syms}
                want = values.mpc(sp.N(e.xreplace(rep), 40))
                if not matches(parse_latex.evaluate_all(tree, env), want, 1e-25):
                    return key, "matrix", (f"{r} x {c} matrix rendered as {tex!r}: entry ({i}, {j}) "
                        f"reads as something else than {short(e, 60)}")
    return key, "matrix", ""


def canonical_case(d: Any) -> Optional[tuple[str, str, str]]:
    from symplyphysics.docs.printer_latex import latex_str
    try:
        e = printspace.build(d)
    except OverflowError:
        return None  # sympy cannot even build this power of a huge float
    if e.has(sp.zoo, sp.nan) or e in (sp.oo, -sp.oo):
        return None
    key = sp.srepr(e)
    tex = latex_str(e)
    bad = parse_latex.well_formed(tex)
    if bad:
        return key, "malformed", f"{tex!r}: {bad}"
    syms = printspace.symbols()
    tokens = {latex_str(s): s for s in syms}
    if INTERNAL.search(tex):
        return key, "read", f"internal name in {tex!r}"
    for s in e.free_symbols:
        if latex_str(s) not in tex:
            return key, "read", f"LaTeX name {latex_str(s)} missing in {tex!r}"
    try:
        tree = parse_latex.read(tex, list(tokens))
    except parse_latex.Unread as ex:
        return key, "unread", f"UNREAD {tex!r}: {ex}"
    tol = 1e-11 if e.atoms(sp.Float) else 1e-25
    for pt in POINTS:
        env = {t: printspace.point_mp(pt[s.display_name]) for t, s in tokens.items()}
        rep = {s: printspace.point_value(pt[s.display_name]) for s in syms}
        try:
            want = values.mpc(sp.N(e.xreplace(rep), 40))
            got = parse_latex.evaluate_all(tree, env)
        except parse_latex.Unread as ex:
            return key, "unread", f"UNREAD {tex!r}: {ex}"
        except (ZeroDivisionError, ValueError, OverflowError, TypeError):
            return key, "undefined", ""
        if mpmath.isnan(want) or mpmath.isinf(want):
            return key, "undefined", ""
        if want != 0 and abs(mpmath.log10(abs(want))) > 5000:
            return key, "undefined", ""  # astronomically large / small: a 15-digit float in an
            # exponent makes the comparison meaningless
        if not matches(got, want, tol):
            if not printspace.float_conditioned(e, rep, want, tol):
                return key, "undefined", ""
            return key, "read", (f"{tex!r} reads as {[mpmath.nstr(g, 12) for g in got[:3]]} but the "
                f"expression {short(e, 80)} is {mpmath.nstr(want, 12)} at {pt}")
    return key, "read", ""


def bound_index_check(value: Any, tex: str) -> str:
    """equations with indexed sums / products are not evaluated, but their bound index is checked:
    the operator's subscript is the rendering of the index argument, and the equation with the
    index renamed (a meaning-preserving change of bound variable) renders as the same text with
    that token renamed - whatever index the indexed symbols were declared with."""
    from symplyphysics.docs.printer_latex import latex_str
    ops = [x for x in sp.preorder_traversal(value) if type(x).__name__ in ("IndexedSum",
        "IndexedProduct")]
    for op in ops:
        body, idx = op.args
        if not isinstance(idx, sp.Idx) or not re.fullmatch(r"[A-Za-z]", str(idx)):
            continue
        cmd = "\\sum_" if type(op).__name__ == "IndexedSum" else "\\prod_"
        t_op = latex_str(op)
        t_idx = latex_str(idx)
        if not t_op.startswith(cmd + t_idx + " "):
            return (f"{short(t_op, 120)}: the operator's subscript is not the index {t_idx} of "
                f"the {type(op).__name__}")
        if t_op not in tex:
            continue
        for fresh_name in ("q", "m"):
            fresh = sp.Idx(fresh_name)
            if value.has(fresh) or re.search(r"(?<![A-Za-z\\])" + fresh_name + r"(?![A-Za-z])", tex) or \
                    not re.search(r"(?<![A-Za-z\\])" + re.escape(t_idx) + r"(?![A-Za-z])", tex):
                continue
            try:
                renamed = op.xreplace({idx: fresh})
                t_new = latex_str(renamed)
            except Exception as ex:  # pylint: disable=broad-except
                return f"renaming the bound index of {short(t_op, 80)} raised {type(ex).__name__}"
            want = re.sub(r"(?<![A-Za-z\\])" + re.escape(t_idx) + r"(?![A-Za-z])", fresh_name, t_op)
            if t_new != want:
                return (f"{short(t_op, 100)} with the bound index renamed to {fresh_name} renders as "
                    f"{short(t_new, 100)}, expected {short(want, 100)}")
            break
    return ""


def catalogue_equation(value: Any) -> tuple[str, str]:
    from symplyphysics.docs.printer_latex import latex_str
    tex = latex_str(value)
    bad = parse_latex.well_formed(tex)
    if bad:
        return "malformed", f"{short(tex, 160)}: {bad}"
    if INTERNAL.search(tex):
        return "read", f"internal name in {short(tex, 140)}"
    if not isinstance(value, sp.Basic):
        return "structure", ""
    bound = bound_index_check(value, tex)
    if bound:
        return "read", bound
    atoms = set()
    for a in sp.preorder_traversal(value):
        if isinstance(a, (sp.Symbol, SymQuantity)) or (hasattr(a, "display_name") and not a.args):
            atoms.add(a)
    fclasses = {f.func for f in value.atoms(sp.core.function.AppliedUndef)}
    tokens: dict[str, Any] = {}
    for a in sorted(atoms, key=str):
        try:
            t = latex_str(a)
        except Exception:
            return "structure", ""
        if t in tokens and tokens[t] != a and not isinstance(a, sp.Indexed) and not isinstance(
                tokens[t], sp.Indexed):
            # the reader of the page cannot tell the two apart: the formula denotes something else
            return "read", (f"{short(tex, 140)}: two different symbols of the equation "
                f"({display_of(tokens[t])}, {display_of(a)}) are both rendered as {t}")
        tokens[t] = a
    ftokens = {}
    for f in fclasses:
        t = getattr(f, "display_latex", None) or f.__name__
        ftokens[t] = f
    if value.atoms(sp.Derivative, sp.Integral, sp.Sum, sp.MatrixBase, sp.Indexed, sp.Piecewise) or \
            any(type(x).__name__ in ("IndexedSum", "IndexedProduct", "Average", "FiniteDifference",
            "ExactDifferential", "InexactDifferential") for x in sp.preorder_traversal(value)):
        return "structure", ""
    try:
        tree = parse_latex.read(tex, list(tokens) + list(ftokens))
    except parse_latex.Unread:
        return "unread", ""
    if tree.kind == "rel":
        if not isinstance(value, sp.core.relational.Relational):
            return "structure", ""
        pairs = [(tree.args[1], value.lhs), (tree.args[2], value.rhs)]
    else:
        pairs = [(tree, value)]
    env, rep, apply_env, frep = {}, {}, {}, {}
    for t, a in tokens.items():
        n = display_of(a)
        v = (sp.Rational(5, 3) + _hval(n) / 7) if isinstance(a, SymQuantity) else _hval(n)
        env[t] = mpmath.mpf(v.p) / v.q
        rep[a] = v
    for t, f in ftokens.items():
        c = _hval(display_of(f), "fun")

        def fn(*args: Any, c: Any = c) -> Any:
            r = mpmath.mpf(c.p) / c.q
            for i, x in enumerate(args):
                r = r + (i + 2) * mpmath.power(x, i + 1) / 5
            return r

        apply_env[t] = fn
    for ap in value.atoms(sp.core.function.AppliedUndef):
        c = _hval(display_of(ap.func), "fun")
        frep[ap] = c + sum(((i + 2) * x**(i + 1) / 5 for i, x in enumerate(ap.args)), sp.S.Zero)
    kind = "read"
    for st, sv in pairs:
        try:
            got = parse_latex.evaluate_all(st, env, apply_env)
            sv2 = sv.xreplace(frep) if frep else sv
            want = values.mpc(sp.N(sv2.xreplace(rep), 40))
        except parse_latex.Unread:
            kind = "unread"
            continue
        except Exception:
            kind = "unread"
            continue
        if mpmath.isnan(want) or mpmath.isinf(want):
            continue
        tol = 1e-11 if sv.atoms(sp.Float) else 1e-22
        if not matches(got, want, tol):
            return "read", (f"{short(tex, 160)}: a side reads as {[mpmath.nstr(g, 12) for g in got[:3]]}"
                f" but the expression is {mpmath.nstr(want, 12)}")
    return kind, ""


def _work(item: tuple) -> dict:
    kind, payload = item
    res: dict[str, Any] = {"n": 0, "keys": [], "outcomes": {}, "violations": [], "undecided": [],
        "samples": []}

    def count(o: str) -> None:
        res["outcomes"][o] = res["outcomes"].get(o, 0) + 1

    if kind == "matrices":
        for r_, c_, rot in payload:
            for imm in (False, True):
                res["n"] += 1
                key, outcome, viol = matrix_case(r_, c_, rot, imm)
                res["keys"].append(key)
                count(outcome)
                if viol:
                    res["violations"].append((key, viol, {"matrix": [r_, c_, rot, imm]}))
    elif kind == "trees":
        for d in payload:
            res["n"] += 1
            try:
                with time_limit(20):
                    r = canonical_case(d)
            except CaseTimeout:
                res["undecided"].append((str(d), "timeout"))
                continue
            if r is None:
                count("excluded")
                continue
            key, outcome, viol = r
            res["keys"].append(key)
            count(outcome)
            if outcome == "unread":
                res["undecided"].append((key[:80], viol))
            elif viol:
                res["violations"].append((key, viol, {"tree": d}))
            elif not res["samples"] and isinstance(d, tuple) and len(str(d)) > 30:
                from symplyphysics.docs.printer_latex import latex_str
                res["samples"].append({"tree": d, "rendering": latex_str(printspace.build(d))})
    else:
        for modname in payload:
            try:
                with time_limit(120):
                    members = printspace.source_members(modname)
            except CaseTimeout:
                res["undecided"].append((modname, "timeout while loading the source form"))
                continue
            except Exception as ex:
                res["undecided"].append((modname, f"source form not loadable: {type(ex).__name__}"))
                continue
            for attr, value in members:
                vals = value if isinstance(value, (list, tuple)) else [value]
                for i, v in enumerate(vals):
                    key = f"{modname}.{attr}" + (f"[{i}]" if len(vals) > 1 else "")
                    res["n"] += 1
                    res["keys"].append(key)
                    try:
                        with time_limit(30):
                            cls, viol = catalogue_equation(v)
                    except CaseTimeout:
                        res["undecided"].append((key, "timeout"))
                        continue
                    count(f"catalogue-{cls}")
                    if viol:
                        res["violations"].append((key, viol, {"module": modname, "attr": attr,
                            "index": i}))
    return res


def main(run: Run) -> int:
    printspace.setup()
    descs = rotate(list(printspace.space(run.thorough)), run.seed * 7919)
    items: list[tuple] = [("trees", c) for c in explore.chunked(descs, 400)]
    items += [("catalogue", c) for c in explore.chunked(catalogue.discover(), 12)]
    items.append(("matrices", list(printspace.matrix_space())))
    for r in pmap(_work, items):
        n = r.pop("n")
        run.evaluations += n
        r["n"] = 0
        run.absorb([r])
    oc = run.outcomes
    run.note(tree_descriptions=len(descs), canonical_read=oc.get("read", 0), canonical_unread=
        oc.get("unread", 0), catalogue_value_checked=oc.get("catalogue-read", 0),
        catalogue_structure_only=oc.get("catalogue-structure", 0) + oc.get("catalogue-unread", 0))
    return run.finish(
        rule="same spaces as C17; every rendering is checked by the brace/delimiter automaton; "
        "renderings inside the reader's grammar are value-checked under all conventional readings; "
        "distinct = distinct canonical expressions / equations",
        exhaustive=True,
        assumptions=["a rendering the reader cannot read is undecided (listed), never a violation",
            "catalogue equations with derivatives, integrals, sums, matrices, indexed symbols, "
            "piecewise or wrapper atoms are well-formedness-checked only"])


def replay(case: dict) -> list[str]:
    printspace.setup()
    if "tree" in case:
        r = canonical_case(explore.tup(case["tree"]))
        return [r[2]] if r and r[2] and r[1] != "unread" else []
    if "matrix" in case:
        r_, c_, rot, imm = case["matrix"]
        return [v for v in [matrix_case(r_, c_, rot, imm)[2]] if v]
    members = dict(printspace.source_members(case["module"]))
    v = members.get(case["attr"])
    if v is None:
        return []
    vals = v if isinstance(v, (list, tuple)) else [v]
    _, viol = catalogue_equation(vals[case.get("index", 0)])
    return [viol] if viol else []

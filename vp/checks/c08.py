"""C08 - the approximate-equality oracle accepts only same-dimension values within tolerance.

Exhaustive grid over (value, offset / tolerance ratio straddling the boundary, part, tolerance
mode, spelling, dimension pair, operand order, entry point); interval reference with must-pass /
must-fail / don't-care bands.
"""
from __future__ import annotations

import itertools

import sympy as sp
from typing import Any, Optional

from ..harness import Run, pmap, rotate, short

PROPERTY = "C08"
LEVEL = "exploration"

VALUES = [1.0, -1.0, 3.7, 1e-30, 1e30, 2 + 3j, 3j, -2.5 - 0.5j]
RHOS = [0.0, 0.5, 1 - 1e-6, 1 + 1e-6, 2.0, 10.0]
PARTS = ["re", "im", "both"]
MODES = [("default", None, None), ("rel1e-2", 1e-2, None), ("rel1e-6", 1e-6, None),
    ("abs1e-3", None, 1e-3), ("abs1e-3rel1e-2", 1e-2, 1e-3), ("abs0", None, 0.0)]
SPELL = ["si", "kilo", "milli"]
DEFAULT_REL = 0.001

PASS, FAIL, FREE = "must-pass", "must-fail", "dont-care"


def classify(l: complex, r: complex, rel: Optional[float], abs_: Optional[float]) -> str:
    relv = DEFAULT_REL if rel is None else rel
    verdict = PASS
    for a, b in ((l.real, r.real), (l.imag, r.imag)):
        d = abs(a - b)
        t_fail = max(abs_ or 0.0, relv * max(abs(a), abs(b)))
        if abs_ is not None:
            t_pass = abs_
        else:
            t_pass = relv * min(abs(a), abs(b))
        if d > t_fail * (1 + 1e-9):
            return FAIL
        if d > t_pass * (1 - 1e-9):
            verdict = FREE
    return verdict


def offset_value(v: complex, rho: float, part: str, rel: Optional[float], abs_: Optional[float]) -> complex:
    relv = DEFAULT_REL if rel is None else rel

    def tau(x: float) -> float:
        t = relv * abs(x)
        if abs_ is not None:
            t = max(t, abs_)
        if t == 0:
            t = relv * abs(v) if abs(v) else 1e-3
        return t

    re, im = v.real, v.imag
    if part in ("re", "both"):
        re = re + rho * tau(re)
    if part in ("im", "both"):
        im = im + rho * tau(im)
    return complex(re, im)


def spell(value: complex, unit: Any, how: str) -> Any:
    from symplyphysics import Quantity
    from symplyphysics.core.symbols.prefixes import prefixes
    import sympy as sp
    v = sp.Float(value.real) + sp.I * sp.Float(value.imag) if value.imag else sp.Float(value.real)
    if how == "si":
        return Quantity(v * unit)
    if how == "kilo":
        return Quantity((v / 1000) * prefixes.kilo * unit)
    return Quantity((v * 1000) * prefixes.milli * unit)


def outcome(fn: Any) -> str:
    """'pass' / 'fail' (False, AssertionError, or a dimension error)"""
    try:
        r = fn()
    except AssertionError:
        return "fail"
    except (ValueError, TypeError):
        return "fail"
    if r is False:
        return "fail"
    return "pass"


def judge(want: str, got: str) -> str:
    if want == FREE:
        return ""
    if (want == PASS) != (got == "pass"):
        return f"oracle says {got}, reference {want}"
    return ""


def scalar_cases(v: complex) -> list[tuple[str, str, str]]:
    from sympy.physics import units as U
    from symplyphysics.core.approx import (approx_equal_numbers, approx_equal_quantities,
        assert_equal)
    out = []
    unit = U.meter
    for (mname, rel, abs_), rho, part in itertools.product(MODES, RHOS, PARTS):
        if v.imag == 0 and part != "re" and rho == 0:
            continue
        r = offset_value(v, rho, part, rel, abs_)
        kw = {}
        if rel is not None:
            kw["relative_tolerance"] = rel
        if abs_ is not None:
            kw["absolute_tolerance"] = abs_
        for a, b, order in ((v, r, "lr"), (r, v, "rl")):
            want = classify(a, b, rel, abs_)
            base = f"{v}|{mname}|rho{rho}|{part}|{order}"
            if a.imag == 0 and b.imag == 0:
                got = outcome(lambda: approx_equal_numbers(a.real, b.real, **kw))
                out.append((base + "|numbers", want, judge(want, got)))
            for sa, sb in (("si", "si"), ("kilo", "si"), ("si", "milli"), ("milli", "kilo")):
                qa, qb = spell(a, unit, sa), spell(b, unit, sb)
                got = outcome(lambda: approx_equal_quantities(qa, qb, **kw))
                out.append((base + f"|quantities|{sa}-{sb}", want, judge(want, got)))
                got2 = outcome(lambda: assert_equal(qa, qb, **kw))
                out.append((base + f"|assert|{sa}-{sb}", want, judge(want, got2)))
                if got != got2:
                    out.append((base + f"|agree|{sa}-{sb}", want,
                        f"approx_equal_quantities says {got}, assert_equal says {got2}"))
            # symmetry without an absolute tolerance
            if abs_ is None and order == "lr":
                qa, qb = spell(a, unit, "si"), spell(b, unit, "si")
                g1 = outcome(lambda: assert_equal(qa, qb, **kw))
                g2 = outcome(lambda: assert_equal(qb, qa, **kw))
                out.append((base + "|symmetry", "symmetric", "" if g1 == g2 else
                    f"assert_equal(l, r) {g1} but assert_equal(r, l) {g2}"))
    return out


EXPONENTS = [("-1", sp.Integer(-1)), ("-1/2", sp.Rational(-1, 2)), ("-0.5", sp.Float(-0.5)),
    ("0", sp.Integer(0)), ("0.5", sp.Float(0.5)), ("1/2", sp.Rational(1, 2)), ("1", sp.Integer(1)),
    ("1.5", sp.Float(1.5)), ("3/2", sp.Rational(3, 2)), ("2", sp.Integer(2)), ("2.0", sp.Float(2.0)),
    ("2.5", sp.Float(2.5)), ("5/2", sp.Rational(5, 2)), ("3", sp.Integer(3)), ("1/3", sp.Rational(1,
    3)), ("0.3", sp.Float(0.3))]


def dimension_cases() -> list[tuple[str, str, str]]:
    from sympy.physics import units as U
    from symplyphysics import Quantity
    from symplyphysics.core.approx import approx_equal_quantities, assert_equal
    out = []
    equivalent = [("hertz", U.hertz, "1/second", 1 / U.second), ("joule", U.joule, "newton*meter",
        U.newton * U.meter), ("radian/second", U.radian / U.second, "hertz", U.hertz),
        ("pascal", U.pascal, "joule/meter**3", U.joule / U.meter**3), ("watt", U.watt,
        "volt*ampere", U.volt * U.ampere)]
    inequivalent = [("meter", U.meter, "second", U.second), ("joule", U.joule, "newton", U.newton),
        ("kilogram", U.kilogram, "meter", U.meter), ("meter", U.meter, "meter**2", U.meter**2),
        ("volt", U.volt, "ampere", U.ampere), ("meter", U.meter, "1", 1), ("1", 1, "second",
        U.second)]
    # exact values sympy keeps unevaluated (irrational, special functions whose finiteness it cannot
    # decide) besides plain floats
    exact_values = [sp.pi, sp.sqrt(2), sp.exp(-3), sp.besselj(0, 3), sp.besselj(0, sp.Float(1.2)),
        sp.airyai(1), sp.erf(1), sp.zeta(3), sp.Si(2), sp.elliptic_e(sp.Rational(1, 2))]
    for v in (1.0, 3.7, -2.5, *exact_values):
        for (an, a, bn, b) in equivalent:
            for x, y, tag in ((a, b, f"{an}~{bn}"), (b, a, f"{bn}~{an}")):
                got = outcome(lambda: assert_equal(Quantity(v * x), Quantity(v * y)))
                out.append((f"dim-equivalent:{tag}:{v}", PASS, judge(PASS, got)))
                got = outcome(lambda: assert_equal(Quantity(v * x), Quantity(v * 1.5 * y)))
                out.append((f"dim-equivalent-off:{tag}:{v}", FAIL, judge(FAIL, got)))
        for (an, a, bn, b) in inequivalent:
            for x, y, tag in ((a, b, f"{an}!{bn}"), (b, a, f"{bn}!{an}")):
                for fname, fn in (("assert", assert_equal), ("quantities", approx_equal_quantities)):
                    # equal numbers, inequivalent dimensions: must fail
                    got = outcome(lambda: fn(Quantity(v * x), Quantity(v * y)))
                    out.append((f"dim-inequivalent:{fname}:{tag}:{v}", FAIL, judge(FAIL, got)))
                    # the optional `dimension` argument (meant for bare numbers) must not
                    # re-label an operand that is a quantity of another dimension
                    if isinstance(v, float):
                        for which, qd in (("lhs", Quantity(v * x)), ("rhs", Quantity(v * y))):
                            got = outcome(lambda: fn(Quantity(v * x), Quantity(v * y),
                                dimension=qd.dimension))
                            out.append((f"dim-inequivalent-keyword:{fname}:{tag}:{which}:{v}", FAIL,
                                judge(FAIL, got)))
                    # zero values as well: 0 m is not 0 s for the oracle?  zero matches any
                    # dimension in the gate, so this case is left open
        # exponent grid: the same base raised to every pair of exponents (exact and floating
        # spellings); numerically different exponents are inequivalent dimensions, identical
        # spellings are the same dimension; the same number written once exactly and once as a
        # float (2 vs 2.0) is left open (sympy keeps them apart, the property does not say)
        if v == -2.5 or not isinstance(v, float):
            continue
        for bname, mk in (("meter", lambda e: U.meter**e), ("ampere*hertz", lambda e: U.ampere *
            U.hertz**e), ("joule", lambda e: U.joule**e)):
            for (na, ea), (nb, eb) in itertools.product(EXPONENTS, repeat=2):
                same_number = sp.Rational(str(ea)) == sp.Rational(str(eb)) if (ea.is_Float or
                    eb.is_Float) else ea == eb
                if same_number and (ea.is_Float != eb.is_Float):
                    continue
                want = PASS if same_number else FAIL
                for fname, fn in (("assert", assert_equal), ("quantities", approx_equal_quantities)):
                    try:
                        qa, qb = Quantity(v * mk(ea)), Quantity(v * mk(eb))
                    except Exception:
                        continue
                    got = outcome(lambda: fn(qa, qb))
                    out.append((f"dim-exponent:{fname}:{bname}**{na}|{nb}:{v}", want, judge(want,
                        got)))
        # bare numbers
        q = Quantity(v * U.meter)
        got = outcome(lambda: assert_equal(q, v))
        out.append((f"bare:nodim:{v}", FAIL, judge(FAIL, got)))
        got = outcome(lambda: assert_equal(q, v, dimension=U.length))
        out.append((f"bare:dim:{v}", PASS, judge(PASS, got)))
        got = outcome(lambda: assert_equal(q, v * 1.5, dimension=U.length))
        out.append((f"bare:dim-off:{v}", FAIL, judge(FAIL, got)))
        got = outcome(lambda: assert_equal(q, v, dimension=U.time))
        out.append((f"bare:wrongdim:{v}", FAIL, judge(FAIL, got)))
        got = outcome(lambda: assert_equal(Quantity(v), v))
        out.append((f"bare:dimensionless:{v}", PASS, judge(PASS, got)))
        got = outcome(lambda: assert_equal(v, v))
        out.append((f"bare:both:{v}", PASS, judge(PASS, got)))
        got = outcome(lambda: assert_equal(v, v * 1.01))
        out.append((f"bare:both-off:{v}", FAIL, judge(FAIL, got)))
        got = outcome(lambda: assert_equal(v * U.meter, Quantity(v * U.meter)))
        out.append((f"bare:expr-lhs:{v}", PASS, judge(PASS, got)))
    return out


def vector_cases() -> list[tuple[str, str, str]]:
    from sympy.physics import units as U
    from symplyphysics import Quantity, QuantityVector
    from symplyphysics.core.approx import assert_equal_vectors
    out = []
    base = [1.7, -2.3, 0.9, 3.1, -0.6]  # lengths up to 5: four-vectors and longer lists
    for n in (1, 2, 3, 4, 5):
        a = QuantityVector([Quantity(x * U.meter) for x in base[:n]])
        out.append((f"vec:{n}:same", PASS, judge(PASS, outcome(lambda: assert_equal_vectors(a, a)))))
        for i in range(n):
            for rho, want in ((0.5, PASS), (2.0, FAIL), (10.0, FAIL)):
                comps = list(base[:n])
                comps[i] = comps[i] * (1 + rho * DEFAULT_REL) if rho < 1 else comps[i] * (1 + rho *
                    DEFAULT_REL * 1.01)
                w = classify(complex(base[i]), complex(comps[i]), None, None)
                b = QuantityVector([Quantity(x * U.meter) for x in comps])
                for x, y, tag in ((a, b, "lr"), (b, a, "rl")):
                    got = outcome(lambda: assert_equal_vectors(x, y))
                    out.append((f"vec:{n}:dev{i}:rho{rho}:{tag}", w, judge(w, got)))
            # wrong dimension in one component is refused at construction of the vector itself;
            # a whole vector of another dimension must fail
        c = QuantityVector([Quantity(x * U.second) for x in base[:n]])
        out.append((f"vec:{n}:dimension", FAIL, judge(FAIL, outcome(lambda:
            assert_equal_vectors(a, c)))))
        for m in (1, 2, 3, 4, 5):
            if m == n:
                continue
            d = QuantityVector([Quantity(x * U.meter) for x in base[:m]])
            got = outcome(lambda: assert_equal_vectors(a, d))
            out.append((f"vec:{n}vs{m}:length", FAIL, judge(FAIL, got)))
        # explicit tolerances are forwarded
        b = QuantityVector([Quantity(x * 1.005 * U.meter) for x in base[:n]])
        got = outcome(lambda: assert_equal_vectors(a, b, relative_tolerance=1e-2))
        out.append((f"vec:{n}:rel1e-2", PASS, judge(PASS, got)))
        got = outcome(lambda: assert_equal_vectors(a, b, relative_tolerance=1e-4))
        out.append((f"vec:{n}:rel1e-4", FAIL, judge(FAIL, got)))
    return out


def _work(item: tuple) -> dict:
    kind, payload = item
    if kind == "scalar":
        cases = scalar_cases(payload)
    elif kind == "dims":
        cases = dimension_cases()
    else:
        cases = vector_cases()
    res: dict[str, Any] = {"n": len(cases), "keys": [], "outcomes": {}, "violations": [],
        "samples": []}
    for k, want, v in cases:
        res["outcomes"][want] = res["outcomes"].get(want, 0) + 1
        if want != FREE:
            res["keys"].append(k)
        if v:
            res["violations"].append((k, v, {"item": [kind, str(payload)], "key": k}))
    if cases:
        res["samples"].append({"case": cases[len(cases) // 3][0], "reference": cases[len(cases) //
            3][1]})
    return res


def main(run: Run) -> int:
    items = [("scalar", v) for v in VALUES] + [("dims", None), ("vectors", None)]
    for r in pmap(_work, rotate(items, run.seed)):
        n = r.pop("n")
        run.evaluations += n
        r["n"] = 0
        run.absorb([r])
    return run.finish(
        rule="full product of 8 values x 6 tolerance modes x 6 offset/tolerance ratios x 3 parts x 2 "
        "operand orders x 4 spelling pairs x 3 entry points, plus dimension pairs, bare numbers, "
        "vectors of length 1..3; distinct = case keys whose reference verdict is must-pass or "
        "must-fail (the band between the two tolerances is don't-care)",
        exhaustive=True,
        assumptions=["must-fail iff dimensions inequivalent or |delta| > max(abs, rel*max(|l|,|r|)) in "
            "the real or the imaginary part; must-pass iff |delta| <= abs (if given) else "
            "rel*min(|l|,|r|) in both parts", "ratios 1 +- 1e-6 are the closest points to the boundary"])


def replay(case: dict) -> list[str]:
    kind, payload = case["item"]
    if kind == "scalar":
        payload = complex(payload)
    r = _work((kind, payload))
    return [f"{k}: {w}" for k, w, _ in r["violations"] if k == case["key"]]

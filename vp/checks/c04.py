"""C04 - the dimension gate admits exactly dimensionally equivalent arguments and results.

Part 1 (core gate): exhaustive box of (declared, actual) exponent-vector pairs, swept one
deviation at a time over magnitude, spelling, call style, kind of declaration, direction
(input / output / output-same) and container (list, tuple-declared, QuantityVector).
Part 2 (catalogue): every guard of every decorated catalogue function.
Oracle: three-valued reference verdict from exponent vectors (vp/dims.py).
"""
from __future__ import annotations

import itertools
from fractions import Fraction
from typing import Any, Iterator, Optional

import sympy as sp

from .. import dims, values
from ..harness import Run, pmap, rotate, short

PROPERTY = "C04"
LEVEL = "exploration"

OK, TYPE, UNITS = "ok", "TypeError", "UnitsError"

_BASE_UNITS: list[Any] = []
_BASE_DIMS: list[Any] = []


def _setup() -> None:
    if _BASE_UNITS:
        return
    from sympy.physics import units as U
    _BASE_UNITS.extend([U.meter, U.kilogram, U.second, U.ampere, U.kelvin, U.mole, U.candela])
    _BASE_DIMS.extend([U.length, U.mass, U.time, U.current, U.temperature,
        U.amount_of_substance, U.luminous_intensity])


def box(l1: int, halves: bool = True) -> list[tuple]:
    out = []
    for v in itertools.product(range(-2, 3), repeat=7):
        if sum(abs(x) for x in v) <= l1:
            out.append(tuple(Fraction(x) for x in v))
    if halves:
        for i in range(7):
            for h in (Fraction(1, 2), Fraction(-1, 2), Fraction(3, 2), Fraction(-3, 2)):
                v = [Fraction(0)] * 7
                v[i] = h
                out.append(tuple(v))
                if i < 6:
                    v2 = list(v)
                    v2[i + 1] = Fraction(1)
                    out.append(tuple(v2))
        for i in (0, 2):  # almost dimensionless
            for h in (Fraction(1, 250), Fraction(-1, 1000)):
                v = [Fraction(0)] * 7
                v[i] = h
                out.append(tuple(v))
    return out


def vec(v: tuple) -> dims.DimVec:
    return dims.DimVec(dict(zip(dims.BASES, v)))


def unit_expr(v: tuple) -> Any:
    e = sp.S.One
    for u, x in zip(_BASE_UNITS, v):
        if x:
            e = e * u**sp.Rational(x.numerator, x.denominator)
    return e


def dim_expr(v: tuple, angle: int = 0) -> Any:
    from sympy.physics.units import Dimension
    from sympy.physics.units.definitions.dimension_definitions import angle as angle_dim
    e = Dimension(1)
    for d, x in zip(_BASE_DIMS, v):
        if x:
            e = e * d**sp.Rational(x.numerator, x.denominator)
    if angle:
        e = e * angle_dim**angle
    return e


def neighbours(v: tuple) -> Iterator[tuple]:
    yield v
    for i in range(7):
        for s in (1, -1):
            w = list(v)
            w[i] += s
            yield tuple(w)
    yield tuple(Fraction(0) for _ in v)
    yield tuple(-x for x in v)
    yield tuple(2 * x for x in v)
    # exponents that differ by less than any rounding a dimension check might be tempted to do
    for i in (0, 2, 4):
        for eps in (Fraction(1, 1000), Fraction(-1, 250), Fraction(1, 10**6)):
            w = list(v)
            w[i] += eps
            yield tuple(w)


def verdict(declared: tuple, actual: tuple, absorbing: bool = False) -> str:
    if absorbing:
        return OK
    if vec(declared) == vec(actual):
        return OK
    if all(x == 0 for x in actual):
        return TYPE
    return UNITS


# ---- drivers of the real gate -------------------------------------------------------------------


def call_input(declared: Any, value: Any, keyword: bool = False, shape: int = 0) -> tuple[str, str, bool]:
    """returns (verdict, message, body ran).  The probes of all shapes share one qualified name
    but differ in their parameter lists, as redefined helpers or lambdas do."""
    from symplyphysics import validate_input
    from symplyphysics.core.errors import UnitsError
    ran = []
    if shape == 0:

        @validate_input(param_=declared)
        def probe(param_: Any) -> Any:
            ran.append(1)
            return param_

        args, kwargs = ((), {"param_": value}) if keyword else ((value, ), {})
    elif shape == 1:

        @validate_input(param_=declared)
        def probe(other_: Any, param_: Any) -> Any:  # type: ignore[misc]
            ran.append(1)
            return param_

        args, kwargs = ((), {"param_": value, "other_": 7}) if keyword else ((7, value), {})
    elif shape == 2:

        @validate_input(param_=declared)
        def probe(param_: Any, extra_: Any = None) -> Any:  # type: ignore[misc]
            ran.append(1)
            return param_

        args, kwargs = ((), {"extra_": 7, "param_": value}) if keyword else ((value, 7), {})
    else:

        @validate_input(param_=declared, second_=declared)
        def probe(first_: Any, second_: Any, param_: Any) -> Any:  # type: ignore[misc]
            ran.append(1)
            return param_

        args, kwargs = (((7, ), {"param_": value, "second_": value}) if keyword else ((7, value,
            value), {}))
    try:
        probe(*args, **kwargs)
        return OK, "", bool(ran)
    except UnitsError as e:
        return UNITS, str(e), bool(ran)
    except TypeError as e:
        return TYPE, str(e), bool(ran)


def call_output(declared: Any, value: Any) -> tuple[str, str, bool]:
    from symplyphysics import validate_output
    from symplyphysics.core.errors import UnitsError

    @validate_output(declared)
    def probe() -> Any:
        return value

    try:
        r = probe()
        return OK, "", r is value
    except UnitsError as e:
        return UNITS, str(e), False
    except TypeError as e:
        return TYPE, str(e), False


def call_output_same(inp: Any, value: Any) -> tuple[str, str, bool]:
    from symplyphysics.core.quantity_decorator import validate_output_same
    from symplyphysics.core.errors import UnitsError

    @validate_output_same("param_")
    def probe(param_: Any) -> Any:
        return value

    try:
        r = probe(inp)
        return OK, "", r is value
    except UnitsError as e:
        return UNITS, str(e), False
    except TypeError as e:
        return TYPE, str(e), False


MAGNITUDES = [("1", 1), ("-1", -1), ("1e-30", sp.Float("1e-30")), ("1e30", sp.Float("1e30")),
    ("7/3", sp.Rational(7, 3)), ("2+3i", 2 + 3 * sp.I),
    # outside the range of a binary double, ordinary for sympy (e.g. a product of two small values)
    ("1e-400", sp.Float("1e-400")), ("1e400", sp.Float("1e400"))]
ABSORBING = [("0", 0), ("0.0", 0.0), ("oo", sp.oo), ("-oo", -sp.oo), ("nan", sp.nan)]


def expect(want: str, got: tuple[str, str, bool], must_name: Optional[str] = "param_") -> str:
    v, msg, ran = got
    if v != want:
        return f"verdict {v} ({short(msg, 120)}), reference {want}"
    if (want == OK) != ran:
        return f"verdict {v} but body ran={ran}"
    if want != OK and must_name and f"'{must_name}" not in msg:
        return f"error does not name the parameter: {short(msg, 160)}"
    return ""


def pair_cases(d: tuple, a: tuple, deep: bool) -> Iterator[tuple[str, str]]:
    """yields (case key, violation text or '') for one (declared, actual) pair and its one-deviation
    neighbourhood"""
    from symplyphysics import Quantity, Symbol, Function, IndexedSymbol
    from symplyphysics.core.symbols.prefixes import prefixes
    from symplyphysics.core.operations.symbolic import Average
    D, A = dim_expr(d), unit_expr(a)
    want = verdict(d, a)
    tag = f"{vec(d)}<-{vec(a)}"
    q = Quantity(A)
    yield f"{tag}|base", expect(want, call_input(D, q))
    if not deep:
        return
    yield f"{tag}|kw", expect(want, call_input(D, q, keyword=True))
    for shape in (1, 2, 3, 0):
        name = "second_" if shape == 3 else "param_"
        yield f"{tag}|shape{shape}", expect(want, call_input(D, q, shape=shape), must_name=name)
        yield f"{tag}|shape{shape}kw", expect(want, call_input(D, q, keyword=True, shape=shape),
            must_name=name)
    yield f"{tag}|expr", expect(want, call_input(D, 5 * A if A != 1 else sp.Integer(5)))
    for name, m in MAGNITUDES:
        yield f"{tag}|mag{name}", expect(want, call_input(D, Quantity(m * A)))
    for name, m in ABSORBING:
        yield f"{tag}|mag{name}", expect(OK, call_input(D, Quantity(m * A)))
        yield f"{tag}|qdim{name}", expect(OK, call_input(D, Quantity(m, dimension=dim_expr(a))))
    for pname in ("kilo", "milli", "micro"):
        yield f"{tag}|{pname}", expect(want, call_input(D, Quantity(getattr(prefixes, pname) * A)))
    # angle factors on either side are erased
    yield f"{tag}|angdecl", expect(want, call_input(dim_expr(d, angle=1), q))
    yield f"{tag}|angdecl-1", expect(want, call_input(dim_expr(d, angle=-1), q))
    from sympy.physics.units import radian
    yield f"{tag}|angact", expect(want, call_input(D, Quantity(A * radian)))
    # kinds of declaration
    for kind, decl in (("Symbol", Symbol("s", D)), ("Function", Function("f", None, D)),
        ("Indexed", IndexedSymbol("i", None, D)), ("Symbolic", Average(Symbol("s", D)))):
        yield f"{tag}|decl{kind}", expect(want, call_input(decl, q))
    # symbols / symbolic wrappers as values stand for their dimension
    yield f"{tag}|valSymbol", expect(want, call_input(D, Symbol("v", dim_expr(a))))
    # output directions
    yield f"{tag}|out", expect(want, call_output(D, q), must_name="return")
    yield f"{tag}|outsame", expect(want, call_output_same(Quantity(unit_expr(d)), q),
        must_name="return")
    for name, m in ABSORBING[:1]:
        yield f"{tag}|out{name}", expect(OK, call_output(D, Quantity(m * A)), must_name="return")


def bare_number_cases(d: tuple) -> Iterator[tuple[str, str]]:
    D = dim_expr(d)
    dimless = all(x == 0 for x in d)
    tag = f"{vec(d)}<-bare"
    for name, n in (("100", 100), ("2.5", 2.5), ("7/3", sp.Rational(7, 3)), ("-1", -1),
        ("1e-300", 1e-300)):
        yield f"{tag}|{name}", expect(OK if dimless else TYPE, call_input(D, n))
    for name, n in (("0", 0), ("0.0", 0.0), ("-0.0", -0.0), ("S0", sp.S.Zero), ("oo", sp.oo),
        ("finf", float("inf")), ("nan", sp.nan)):
        yield f"{tag}|{name}", expect(OK, call_input(D, n))


def container_cases(d: tuple) -> Iterator[tuple[str, str]]:
    """sequences: every element is checked against the single declaration; tuple declaration:
    element-wise; the first offending element decides the verdict"""
    from symplyphysics import Quantity
    D = dim_expr(d)
    wrong = list(d)
    wrong[2] += 1
    wrongv = tuple(wrong)
    good = Quantity(3 * unit_expr(d))
    bad = Quantity(3 * unit_expr(wrongv))
    zero = Quantity(0 * unit_expr(wrongv) if False else 0, dimension=dim_expr(wrongv))
    # "0" / "f": bare Python zeros as elements (any dimension, but they still occupy a position)
    menu = {"g": (good, OK), "b": (bad, verdict(d, wrongv)), "z": (zero, OK), "0": (0, OK),
        "f": (0.0, OK)}
    tag = f"{vec(d)}<-seq"
    for n in ((1, 2, 3, 4) if _THOROUGH else (1, 2, 3)):
        for combo in itertools.product("gbz0f" if _THOROUGH or n < 3 else "gbz0", repeat=n):
            vals = [menu[c][0] for c in combo]
            want = OK
            idx = None
            for i, c in enumerate(combo):
                if menu[c][1] != OK:
                    want, idx = menu[c][1], i
                    break
            name = f"param_[{idx}]" if idx is not None else None
            for cont, mk in (("list", list), ("tuple", tuple)):
                got = call_input(D, mk(vals))
                yield f"{tag}|{cont}:{''.join(combo)}", expect(want, got, must_name=name)
            # tuple declaration: declared per element (all the same here) and shifted
            got = call_input(tuple([D] * n), vals)
            yield f"{tag}|decltuple:{''.join(combo)}", expect(want, got, must_name=name)
    # per-element declarations that differ
    got = call_input((D, dim_expr(wrongv)), [good, bad])
    yield f"{tag}|decltuple-mixed-ok", expect(OK, got)
    got = call_input((D, dim_expr(wrongv)), [bad, good])
    yield f"{tag}|decltuple-mixed-swapped", expect(verdict(d, wrongv), got, must_name="param_[0]")
    # every per-position declaration over {d, wrong} against every element sequence: position i
    # is judged against declaration i, whatever stands before it (bare zeros included)
    W = dim_expr(wrongv)
    actual = {"g": d, "b": wrongv}
    for n in ((2, 3) if _THOROUGH else (2,)):
        for decl in itertools.product("dw", repeat=n):
            for combo in itertools.product("gbz0f", repeat=n):
                want, idx = OK, None
                for i, (dc, c) in enumerate(zip(decl, combo)):
                    if c in actual:
                        v = verdict(d if dc == "d" else wrongv, actual[c])
                        if v != OK:
                            want, idx = v, i
                            break
                got = call_input(tuple(D if dc == "d" else W for dc in decl), [menu[c][0] for c in
                    combo])
                yield f"{tag}|declmix:{''.join(decl)}:{''.join(combo)}", expect(want, got,
                    must_name=f"param_[{idx}]" if idx is not None else None)
    yield f"{tag}|empty", expect(OK, call_input(D, []))


def vector_cases(d: tuple) -> Iterator[tuple[str, str]]:
    """QuantityVector: components are checked at construction (angle slots against angle), the
    vector as a whole at the gate"""
    from symplyphysics import Quantity, QuantityVector, CoordinateSystem
    from symplyphysics.core.errors import UnitsError
    D = dim_expr(d)
    wrong = list(d)
    wrong[0] += 1
    wrongv = tuple(wrong)
    dimless = all(x == 0 for x in d)
    for sysname in ("CARTESIAN", "CYLINDRICAL", "SPHERICAL"):
        st = getattr(CoordinateSystem.System, sysname)
        cs = CoordinateSystem(st)
        for n in (1, 2, 3):
            for combo in itertools.product("gbz", repeat=n):
                comps = []
                want_ctor = OK
                for i, c in enumerate(combo):
                    angle_slot = CoordinateSystem.is_angle_component(st, i)
                    slot = tuple(Fraction(0) for _ in d) if angle_slot else d
                    slot_wrong = wrongv if not angle_slot else (Fraction(1), ) + (Fraction(0), ) * 6
                    if c == "g":
                        comps.append(Quantity(2 * unit_expr(slot)))
                    elif c == "z":
                        comps.append(Quantity(0, dimension=dim_expr(slot_wrong)))
                    else:
                        comps.append(Quantity(2 * unit_expr(slot_wrong)))
                        if want_ctor == OK:
                            want_ctor = verdict(slot, slot_wrong)
                tag = f"{vec(d)}<-vec:{sysname}:{''.join(combo)}"
                lead = "".join(combo).lstrip("z")
                if lead == "" and not dimless:
                    # all components zero: zero matches anything, so the vector passes every gate
                    # (as argument and as result), whatever dimension its zeros were declared with
                    try:
                        qv = QuantityVector(comps, cs)
                    except (UnitsError, TypeError) as ex:
                        yield tag + "|ctor", f"zero vector refused at construction: {short(ex)}"
                        continue
                    yield tag + "|ctor", ""
                    yield tag + "|gate-zero", expect(OK, call_input(D, qv))
                    yield tag + "|gate-zero-other", expect(OK, call_input(dim_expr(wrongv), qv))
                    yield tag + "|result-zero", expect(OK, call_output(D, qv), must_name=None)
                    continue
                if not lead.startswith("g") or CoordinateSystem.is_angle_component(st, len(combo) -
                        len(lead)):
                    continue  # the vector's own dimension is taken from its first non-zero
                    # component; cases led by a wrong component (or by an angle slot) are
                    # ambiguous by design
                try:
                    qv = QuantityVector(comps, cs)
                    got = OK
                except UnitsError:
                    got = UNITS
                except TypeError:
                    got = TYPE
                if got != want_ctor:
                    yield tag + "|ctor", f"construction verdict {got}, reference {want_ctor}"
                    continue
                yield tag + "|ctor", ""
                if got != OK:
                    continue
                yield tag + "|gate-ok", expect(OK, call_input(D, qv))
                w = verdict(wrongv, d)
                yield tag + "|gate-wrong", expect(w, call_input(dim_expr(wrongv), qv))
                # explicit dimension at construction
                try:
                    QuantityVector(comps, cs, dimension=dim_expr(wrongv))
                    g2 = OK
                except UnitsError:
                    g2 = UNITS
                except TypeError:
                    g2 = TYPE
                w2 = verdict(wrongv, d)
                yield tag + "|ctor-explicit-wrong", ("" if g2 == w2 else
                    f"explicit wrong dimension: verdict {g2}, reference {w2}")


def complex_vector_cases(d: tuple) -> Iterator[tuple[str, str]]:
    """quantity vectors with complex components whose plain squares cancel (3, 4, 5i), (1, i, 0):
    they are not zero vectors"""
    from symplyphysics import Quantity, QuantityVector
    D = dim_expr(d)
    wrong = list(d)
    wrong[0] += 1
    wrongv = tuple(wrong)
    if all(x == 0 for x in d) or all(x == 0 for x in wrongv):
        return
    for name, comps in (("3,4,5i", (3, 4, 5 * sp.I)), ("1,i,0", (1, sp.I, 0)), ("i,1", (sp.I, 1))):
        tag = f"{vec(d)}<-complexvec:{name}"
        good = QuantityVector([Quantity(c * unit_expr(d)) for c in comps])
        bad = QuantityVector([Quantity(c * unit_expr(wrongv)) for c in comps])
        yield tag + "|right", expect(OK, call_input(D, good))
        yield tag + "|wrong", expect(verdict(d, wrongv), call_input(D, bad))
        yield tag + "|result-wrong", expect(verdict(d, wrongv), call_output(D, bad), must_name=None)


# named derived dimensions / units spelled differently
def named_cases() -> Iterator[tuple[str, str]]:
    from sympy.physics import units as U
    from sympy.physics.units.definitions.dimension_definitions import angle as angle_dim
    from symplyphysics import Quantity
    declared = {n: getattr(U, n) for n in ("energy", "force", "power", "pressure", "frequency",
        "velocity", "acceleration", "momentum", "action", "charge", "voltage", "impedance",
        "conductance", "capacitance", "inductance", "magnetic_density", "magnetic_flux", "area",
        "volume", "length", "time", "mass", "temperature", "current")}
    declared["angular_velocity"] = angle_dim / U.time
    declared["torque"] = U.force * U.length
    declared["energy_density"] = U.energy / U.volume
    declared["angle"] = angle_dim
    dvec = {n: dims.of_dimension(v) for n, v in declared.items()}
    spellings = {
        "newton*meter": U.newton * U.meter, "joule": U.joule, "watt*second": U.watt * U.second,
        "radian/second": U.radian / U.second, "hertz": U.hertz, "1/second": 1 / U.second,
        "degree/minute": U.degree / U.minute, "joule/meter**3": U.joule / U.meter**3,
        "pascal": U.pascal, "newton/meter**2": U.newton / U.meter**2, "watt/ampere": U.watt /
        U.ampere, "volt": U.volt, "ampere*second": U.ampere * U.second, "coulomb": U.coulomb,
        "coulomb/volt": U.coulomb / U.volt, "farad": U.farad, "volt/ampere": U.volt / U.ampere,
        "ohm": U.ohm, "1/ohm": 1 / U.ohm, "siemens": U.siemens, "volt*second": U.volt * U.second,
        "weber": U.weber, "weber/meter**2": U.weber / U.meter**2, "tesla": U.tesla,
        "henry": U.henry, "weber/ampere": U.weber / U.ampere, "joule*second": U.joule * U.second,
        "kilogram*meter/second": U.kilogram * U.meter / U.second, "newton*second": U.newton *
        U.second, "meter/second": U.meter / U.second, "kilometer/hour": U.kilometer / U.hour,
        "meter/second**2": U.meter / U.second**2, "liter": U.liter, "hectare": U.hectare,
        "electronvolt": U.electronvolt, "radian": U.radian, "degree": U.degree,
        "bar": U.bar, "gram*centimeter**2/second**2": U.gram *
        U.centimeter**2 / U.second**2, "kelvin": U.kelvin, "mole": U.mole,
    }
    svec = {}
    for n, e in spellings.items():
        d = dims.ONE
        for b, p in e.as_powers_dict().items():
            if b.is_Number:
                continue
            d = d * values.unit_dim(str(b.name))**p
        svec[n] = d
    for dn, D in declared.items():
        for sn, e in spellings.items():
            if dvec[dn] == svec[sn]:
                want = OK
            elif svec[sn].dimensionless:
                want = TYPE
            else:
                want = UNITS
            yield f"named:{dn}<-{sn}", expect(want, call_input(D, Quantity(3 * e)))


def _work(item: tuple) -> dict:
    _setup()
    kind, payload = item
    res: dict[str, Any] = {"n": 0, "keys": [], "outcomes": {}, "violations": [], "samples": []}
    if kind == "pair":
        d, a, deep = payload
        gen = pair_cases(d, a, deep)
    elif kind == "bare":
        gen = bare_number_cases(payload)
    elif kind == "seq":
        gen = container_cases(payload)
    elif kind == "vec":
        gen = itertools.chain(vector_cases(payload), complex_vector_cases(payload))
    else:
        gen = named_cases()
    for key, viol in gen:
        res["n"] += 1
        res["keys"].append(key)
        if viol:
            res["violations"].append((key, viol, {"item": [kind, _js(payload)], "key": key}))
            res["outcomes"]["violation"] = res["outcomes"].get("violation", 0)
        else:
            res["outcomes"]["agree"] = res["outcomes"].get("agree", 0) + 1
    if kind in ("seq", "vec") and res["keys"]:
        res["samples"].append(res["keys"][len(res["keys"]) // 2])
    return res


def _js(p: Any) -> Any:
    if isinstance(p, tuple):
        return [_js(x) for x in p]
    if isinstance(p, Fraction):
        return str(p)
    return p


def _unjs(p: Any) -> Any:
    if isinstance(p, list):
        return tuple(_unjs(x) for x in p)
    if isinstance(p, str):
        return Fraction(p)
    return p


def core_items(thorough: bool) -> list[tuple]:
    items: list[tuple] = []
    b3 = box(3)
    pairs: set[tuple] = set()
    for d in b3:
        for a in neighbours(d):
            pairs.add((d, a))
    deep_ds = box(2, halves=True)
    deep = set()
    for d in deep_ds:
        for a in list(neighbours(d))[:6] + [tuple(Fraction(0) for _ in d)]:
            deep.add((d, a))
    if thorough:
        b3n = box(3, halves=False)
        for d in b3n:
            for a in b3n:
                pairs.add((d, a))
        for d in box(4, halves=False):
            for a in neighbours(d):
                pairs.add((d, a))
        for d in box(3):
            for a in list(neighbours(d))[:4]:
                deep.add((d, a))
    for (d, a) in sorted(pairs):
        items.append(("pair", (d, a, (d, a) in deep)))
    for d in (b3 if thorough else deep_ds):
        items.append(("bare", d))
    for d in (box(2) if thorough else box(1)):
        items.append(("seq", d))
        items.append(("vec", d))
    items.append(("named", None))
    return items


_THOROUGH = False


def main(run: Run) -> int:
    global _THOROUGH
    _THOROUGH = run.thorough
    _setup()
    items = rotate(core_items(run.thorough), run.seed * 7919)
    n_pairs = sum(1 for k, _ in items if k == "pair")
    for r in pmap(_work, items, chunksize=8):
        n = r.pop("n")
        run.evaluations += n
        r["n"] = 0
        run.absorb([r])
    cat = {}
    try:
        from . import c04cat
        cat = c04cat.run_catalogue(run)
    except ImportError:
        run.note(catalogue_part="not built yet")
    run.note(dimension_pairs=n_pairs, box=("L1<=3 all pairs + L1<=4 neighbourhoods" if run.thorough
        else "L1<=3 neighbourhoods (equal, +-1 on each base, dimensionless, inverse, square)"),
        **cat)
    return run.finish(
        rule="core: every (declared, actual) exponent-vector pair of the box, with one-deviation "
        "sweeps over magnitude / zero-inf-nan / prefix / keyword / declaration kind / direction / "
        "container; distinct = distinct (pair, deviation) keys; catalogue: every guarded parameter "
        "x 7 wrong dimensions + bare number",
        exhaustive=True,
        assumptions=["exponents outside the box are not explored", "vp/dims.py reference verdict: "
            "ok iff exponent vectors equal after erasing angle or the value is 0/inf/nan; TypeError "
            "iff the actual is dimensionless and the declaration is not; else UnitsError"])


def replay(case: dict) -> list[str]:
    _setup()
    if case.get("catalogue"):
        from . import c04cat
        return c04cat.replay(case)
    kind, payload = case["item"]
    r = _work((kind, _unjs(payload) if payload is not None else None))
    return [f"{k}: {w}" for k, w, _ in r["violations"] if k == case["key"]]

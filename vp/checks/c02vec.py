"""C02, vector laws: a module of the ``vector`` families offers its law as plain functions
(``<x>_law`` / ``<x>_definition`` over symbolic vectors) and ``calculate_<x>`` wrappers taking
quantity vectors.  There is no scalar equation to take a residual of; the published law *is* the
law function, so the wrapper is compared with the law function applied to the same arguments.

Explorer: every assignment of direction patterns to the vector parameters (generic, along an axis,
opposite, diagonal, ...: all products, so collinear / anti-parallel / perpendicular pairs all occur)
x every value of the optional parameters from a small menu (omitted, and two explicit values).
"""
from __future__ import annotations

import inspect
import itertools
from typing import Any, Optional

import mpmath
import sympy as sp

from .. import args, catalogue, dims, values
from ..harness import short, time_limit, CaseTimeout

DIRS = {
    "generic": (1, sp.Rational(13, 10), sp.Rational(-7, 4)),
    "x": (1, 0, 0),
    "-x": (-1, 0, 0),
    "y": (0, 1, 0),
    "xy": (1, 1, 0),
    "-xy": (-1, -1, 0),
    "z": (0, 0, 1),
}
OPTIONAL_MENU = [sp.Float("1e-9"), sp.Float("1e-3")]


def law_for(mod: Any, fname: str, fn: Any) -> Optional[tuple[str, Any, dict]]:
    """the law function a calculate_<x> wrapper stands for, and how its parameters are fed"""
    if not fname.startswith("calculate_"):
        return None
    x = fname[len("calculate_"):]
    fns = dict(catalogue.functions(mod))
    sig = catalogue.spec(fn)["signature"]
    cparams = {p.rstrip("_"): p for p in sig.parameters}
    for cand in (x + "_law", x + "_definition"):
        if cand not in fns:
            continue
        lsig = inspect.signature(fns[cand])
        feed = {}
        for lp in lsig.parameters.values():
            base = lp.name.rstrip("_")
            if base in cparams:
                feed[lp.name] = cparams[base]
            elif lp.default is lp.empty:
                return None
        if not feed:
            return None
        # every required wrapper parameter must reach the law
        used = set(feed.values())
        for p in sig.parameters.values():
            if p.default is p.empty and p.name not in used:
                return None
        return cand, fns[cand], feed
    return None


def si_of(x: Any) -> Any:
    from sympy.physics.units import Quantity as SymQuantity
    from symplyphysics import Quantity
    if not isinstance(x, SymQuantity):
        x = Quantity(x)
    dv = dims.of_dimension(x.dimension)
    if isinstance(dv, dims.AnyDim):
        dv = dims.ONE
    return values.raw_to_si(x.scale_factor, dv)


def struct(x: Any) -> list[Any]:
    if hasattr(x, "components"):
        comps = list(x.components)
        return [si_of(c) for c in comps] + [mpmath.mpc(0)] * (3 - len(comps))
    return [si_of(x)]


def close(a: list[Any], b: list[Any]) -> bool:
    if len(a) != len(b):
        return False
    scale = max([abs(v) for v in a + b] + [mpmath.mpf(0)])
    return all(values.close(x, y, 1e-9, max(mpmath.mpf("1e-300"), 1e-9 * scale)) for x, y in zip(a,
        b))


def vector_function_cases(modname: str, mod: Any, fname: str, fn: Any, thorough: bool) -> dict:
    from symplyphysics import QuantityVector
    res: dict[str, Any] = {"n": 0, "keys": [], "outcomes": {}, "violations": [], "undecided": [],
        "samples": []}

    def count(o: str) -> None:
        res["outcomes"][o] = res["outcomes"].get(o, 0) + 1

    found = law_for(mod, fname, fn)
    if found is None:
        return res
    lname, lfn, feed = found
    params, why = args.plan(fn, mod)
    if why:
        return res
    if any(p.kind == "free" for p in params) and not args.resolve_free(fn, params, mod):
        return res
    vecs = [p for p in params if p.kind == "qvector"]
    seqs = [p for p in params if p.kind in ("seq", "qvseq")]
    if not vecs and not any(p.kind == "qvseq" for p in params):
        return res
    sig = catalogue.spec(fn)["signature"]
    optional = []
    for p in sig.parameters.values():
        if p.default is p.empty:
            continue
        ann = str(p.annotation)
        if p.default is None and "float" in ann:
            optional.append((p.name, [None] + OPTIONAL_MENU))
        elif isinstance(p.default, (int, float)) and not isinstance(p.default, bool):
            optional.append((p.name, [None, p.default]))
    patterns = list(DIRS) if (thorough or len(vecs) <= 2) else ["generic", "x", "-x", "y", "xy"]
    key0 = f"{modname}.{fname}"
    # sequences: elements that are distinct objects, or one and the same object repeated (identical
    # particles are naturally written [m, m, m])
    seq_shapes = ["distinct", "same-object"] if seqs else ["distinct"]
    for combo in itertools.product(patterns, repeat=len(vecs)):
      for seq_shape in seq_shapes:
        for opts in itertools.product(*[menu for _, menu in optional]) if optional else [()]:
            kw = {}
            for p in params:
                if p.kind in ("default", "free"):
                    continue
                if p.kind == "qvector":
                    d = DIRS[combo[vecs.index(p)]]
                    kw[p.name] = QuantityVector([args.quantity(p.dim, p.m0 * c) for c in d])
                else:
                    kw[p.name] = args.realise_param(p)
                    if seq_shape == "same-object" and p.kind == "seq":
                        kw[p.name] = [kw[p.name][0]] * len(kw[p.name])
            tag = ",".join(combo) + (f";sequences:{seq_shape}" if seqs else "") + "".join(
                f";{n}={v}" for (n, _), v in zip(optional, opts) if v is not None)
            for (n, _), v in zip(optional, opts):
                if v is not None:
                    kw[n] = v
            res["n"] += 1
            key = f"{key0}|vector-law:{tag}"
            try:
                with time_limit(30):
                    got = fn(**kw)
            except CaseTimeout:
                res["undecided"].append((key, "timeout"))
                continue
            except Exception:  # pylint: disable=broad-except
                count("vector-law-refused")
                continue
            try:
                with time_limit(30):
                    largs = {}
                    for lp, cp in feed.items():
                        v = kw[cp]
                        if isinstance(v, QuantityVector):
                            v = v.to_base_vector()
                        elif isinstance(v, (list, tuple)) and v and isinstance(v[0], QuantityVector):
                            v = [e.to_base_vector() for e in v]
                        largs[lp] = v
                    want = lfn(**largs)
                    a, b = struct(got), struct(want)
            except CaseTimeout:
                res["undecided"].append((key, "timeout in the law function"))
                continue
            except Exception as ex:  # pylint: disable=broad-except
                count("vector-law-unreadable")
                continue
            res["keys"].append(key)
            count("vector-law")
            if not close(a, b):
                res["violations"].append((key0 + "|vector-law", f"{fname} returns "
                    f"{short([mpmath.nstr(v.real, 10) for v in a])} but {lname} of the same arguments is "
                    f"{short([mpmath.nstr(v.real, 10) for v in b])} (directions {combo}, options "
                    f"{dict((n, v) for (n, _), v in zip(optional, opts) if v is not None)})",
                    {"vector_law": True, "module": modname, "function": fname}))
            elif not res["samples"]:
                res["samples"].append(key)
    return res


def replay(case: dict) -> list[str]:
    mod = catalogue.load(case["module"])
    fn = dict(catalogue.functions(mod))[case["function"]]
    r = vector_function_cases(case["module"], mod, case["function"], fn, True)
    return [v for _, v, _ in r["violations"]]

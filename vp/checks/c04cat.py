"""C04, catalogue part: every guard declaration of every decorated function names a parameter,
and a wrong-dimension argument for a guarded parameter is refused with an error naming it."""
from __future__ import annotations

from fractions import Fraction
from typing import Any

from .. import args, catalogue, dims
from ..harness import Run, pmap, rotate, short

BASE_VECS = [dims.base(b) for b in dims.BASES]


def _wrong_value(p: args.Param, wrong: dims.DimVec) -> Any:
    from symplyphysics import QuantityVector
    q = args.quantity(wrong, p.m0)
    if p.kind in ("seq", "tupledecl"):
        vals = args.realise_param(p)
        vals[0] = q
        return vals
    if p.kind == "qvseq":
        vals = args.realise_param(p)
        vals[0] = QuantityVector([args.quantity(wrong, p.m0 * (1 + i)) for i in range(3)])
        return vals
    if p.kind == "qvector":
        return QuantityVector([args.quantity(wrong, p.m0 * (1 + i)) for i in range(3)])
    return q


def check_function(modname: str, fname: str, fn: Any) -> list[tuple[str, str, str]]:
    """returns [(case key, outcome, violation text)]"""
    from symplyphysics.core.errors import UnitsError
    out: list[tuple[str, str, str]] = []
    sp_ = catalogue.spec(fn)
    if not sp_["decorated"]:
        return out
    sig = sp_["signature"]
    base = f"{modname}.{fname}"
    for name in sp_["inputs"]:
        ok = name in sig.parameters
        out.append((f"{base}:decl:{name}", "declaration", "" if ok else
            f"guard declaration '{name}' names no parameter of {fname}{sig}"))
    # cross-check of the recording against the genuine decorator's closure
    clo = catalogue.closure_spec(fn)
    if set(clo["inputs"]) != set(sp_["inputs"]):
        out.append((f"{base}:recording", "declaration",
            f"recorded guards {sorted(sp_['inputs'])} differ from closure {sorted(clo['inputs'])}"))
    params, _ = args.plan(fn)
    # plan() stops at the first parameter it cannot type; guards are still driven one by one
    planned = {p.name: p for p in params}
    for pname, par in sig.parameters.items():
        if pname not in sp_["inputs"]:
            continue
        p = planned.get(pname)
        if p is None:
            # build a Param directly from the declaration
            try:
                decl = sp_["inputs"][pname]
                if isinstance(decl, (tuple, list)):
                    continue
                dv = dims.of_dimension(catalogue.declared_dim(decl))
            except Exception:
                continue
            if isinstance(dv, dims.AnyDim) or dv.symbolic:
                continue
            p = args.Param(pname, "quantity", dv, decl, list(sig.parameters).index(pname))
        if p.kind in ("default", "unsupported", "free", "nested") or p.why == "any":
            continue
        if p.kind == "tupledecl":
            d0 = p.elems[0]
            if isinstance(d0, dims.AnyDim):
                continue
            declared = d0
        else:
            declared = p.dim
        if declared is None or isinstance(declared, dims.AnyDim):
            continue
        # all other arguments: dimensionally valid defaults where guarded, None otherwise
        others = {}
        for qname in sig.parameters:
            if qname == pname:
                continue
            q = planned.get(qname)
            if q is not None and q.kind not in ("default", "free"):
                others[qname] = args.realise_param(q)
            elif qname in sp_["inputs"]:
                try:
                    dvq = dims.of_dimension(catalogue.declared_dim(sp_["inputs"][qname]))
                    others[qname] = args.quantity(dims.ONE if isinstance(dvq, dims.AnyDim) else dvq,
                        1.5)
                except Exception:
                    others[qname] = None
            elif sig.parameters[qname].default is sig.parameters[qname].empty:
                others[qname] = None
        for i, bv in enumerate(BASE_VECS):
            wrong = declared * bv
            want = "TypeError" if wrong.dimensionless else "UnitsError"
            key = f"{base}:{pname}:x{dims.BASES[i]}"
            try:
                fn(**{**others, pname: _wrong_value(p, wrong)})
                got, msg = "accepted", ""
            except UnitsError as e:
                got, msg = "UnitsError", str(e)
            except TypeError as e:
                got, msg = "TypeError", str(e)
            except Exception as e:  # body ran (or crashed) with a wrong-dimension argument
                got, msg = f"accepted-then-{type(e).__name__}", str(e)
            viol = ""
            if got != want:
                viol = f"wrong dimension {wrong} for '{pname}' (declared {declared}): {got} " \
                    f"{short(msg, 120)}, reference {want}"
            elif f"'{pname}" not in msg:
                viol = f"error does not name parameter '{pname}': {short(msg, 160)}"
            out.append((key, "wrong-dimension", viol))
        if not declared.dimensionless and p.kind == "quantity":
            key = f"{base}:{pname}:bare"
            try:
                fn(**{**others, pname: 100})
                got, msg = "accepted", ""
            except UnitsError as e:
                got, msg = "UnitsError", str(e)
            except TypeError as e:
                got, msg = "TypeError", str(e)
            except Exception as e:
                got, msg = f"accepted-then-{type(e).__name__}", str(e)
            viol = ""
            if got != "TypeError":
                viol = f"bare number 100 for '{pname}' (declared {declared}): {got} {short(msg, 120)}"
            elif f"'{pname}" not in msg:
                viol = f"error does not name parameter '{pname}': {short(msg, 160)}"
            out.append((key, "bare-number", viol))
    return out


def _work(modname: str) -> dict:
    res: dict[str, Any] = {"n": 0, "keys": [], "outcomes": {}, "violations": [], "samples": [],
        "undecided": []}
    try:
        mod = catalogue.load(modname)
    except Exception as ex:
        res["undecided"].append((modname, f"import failed: {type(ex).__name__}"))
        return res
    nfun = 0
    for fname, fn in catalogue.functions(mod):
        cases = check_function(modname, fname, fn)
        if cases:
            nfun += 1
        for key, outcome, viol in cases:
            res["n"] += 1
            res["keys"].append(key)
            res["outcomes"][outcome] = res["outcomes"].get(outcome, 0) + 1
            if viol:
                res["violations"].append((key, viol, {"catalogue": True, "module": modname,
                    "function": fname, "key": key}))
        if cases and not res["samples"]:
            res["samples"].append(cases[-1][0])
    res["functions"] = nfun
    return res


def run_catalogue(run: Run) -> dict:
    mods = rotate(catalogue.discover(), run.seed * 31)
    nfun = 0
    before = run.evaluations
    for r in pmap(_work, mods, chunksize=6):
        n = r.pop("n")
        run.evaluations += n
        r["n"] = 0
        nfun += r.pop("functions", 0)
        run.absorb([r])
    return {"catalogue_functions": nfun, "catalogue_guard_cases": run.evaluations - before}


def replay(case: dict) -> list[str]:
    mod = catalogue.load(case["module"])
    fn = dict(catalogue.functions(mod)).get(case["function"])
    if fn is None:
        return [f"{case['module']}.{case['function']} no longer exists"]
    return [f"{k}: {v}" for k, _, v in check_function(case["module"], case["function"], fn)
        if v and k == case["key"]]

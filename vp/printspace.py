"""Expression space shared by C17 (code rendering) and C18 (LaTeX rendering): canonical
(auto-evaluated) trees over the printer-relevant alphabet, and the catalogue's documented
equations in source form."""
from __future__ import annotations

import ast
import itertools
import os
from typing import Any, Iterator

import sympy as sp

from . import catalogue, explore

_L: dict[str, Any] = {}

LEAVES = ["a", "b", "c", "2", "-1", "-3", "1/2", "-2/3", "1.5", "pi", "1e-10", "6.5e-20"]
MEDIUM = ["a", "b", "c", "2", "-1", "1/2", "-2/3", "pi"]
REDUCED = ["a", "b", "2", "-1", "1/2"]
EXPS = ["-1", "2", "-2", "1/2", "-1/2", "1/3", "3/2", "b", "a+c", "-b", "-b-c", "2c-3b"]
COMM = ("Add", "Mul")
UNARY = ("sqrt", "exp", "log", "log2", "sin", "Abs")


def setup() -> dict[str, Any]:
    if _L:
        return _L
    from symplyphysics import Symbol
    _L["a"] = Symbol("a", positive=True)
    _L["b"] = Symbol("beta_1", display_latex="\\beta_{1}", positive=True)
    _L["c"] = Symbol("x_c", display_latex="x_\\text{c}", positive=True)
    _L["3"] = sp.Integer(3)
    for n, v in (("2", 2), ("-1", -1), ("-3", -3), ("1/2", sp.Rational(1, 2)), ("-2/3",
        sp.Rational(-2, 3)), ("1.5", sp.Float(1.5)), ("pi", sp.pi)):
        _L[n] = sp.sympify(v)
    for n, v in (("-2", -2), ("-1/2", sp.Rational(-1, 2)), ("1/3", sp.Rational(1, 3)), ("3/2",
        sp.Rational(3, 2)), ("-1/3", sp.Rational(-1, 3))):
        _L[n] = sp.sympify(v)
    _L["1e-10"] = sp.Float("1e-10")  # printed in exponent notation
    _L["6.5e-20"] = sp.Float("6.5e-20")
    _L["a+c"] = _L["a"] + _L["c"]
    _L["n"] = Symbol("n", integer=True)  # an integer of unknown parity and sign
    _L["w"] = Symbol("w")  # no assumptions: complex
    _L["v"] = Symbol("v")
    _L["n+1"] = _L["n"] + 1
    _L["-n"] = -_L["n"]
    _L["-a-b"] = -_L["a"] - _L["b"]  # sums whose terms are all negative
    _L["-a-2"] = -_L["a"] - 2
    _L["-b"] = -_L["b"]
    _L["-b-c"] = -_L["b"] - _L["c"]  # symbolic exponents that print with a leading minus
    _L["2c-3b"] = 2 * _L["c"] - 3 * _L["b"]
    return _L


def symbols() -> list[Any]:
    L = setup()
    return [L["a"], L["b"], L["c"], L["n"], L["w"], L["v"]]


def build(d: Any) -> Any:
    L = setup()
    if isinstance(d, str):
        return L[d]
    op, *kids = d
    a = [build(k) for k in kids]
    if op == "Add":
        return sp.Add(*a)
    if op == "Mul":
        return sp.Mul(*a)
    if op == "Pow":
        return sp.Pow(a[0], a[1])
    if op == "sqrt":
        return sp.sqrt(a[0])
    if op == "log2":
        return sp.log(a[0], 2)
    if op == "Abs":
        return sp.Abs(a[0])
    return getattr(sp, op)(a[0])


SIBLING_ARGS = ["a", ("Mul", "-1", "a"), ("Mul", "-2", "a"), ("Mul", "2", "a"), ("Add", "a", "-1"),
    ("Add", "a", "-2"), ("Pow", "a", "-1"), ("Pow", "a", "-2"), ("Mul", "-1/3", "a"), ("Mul", "-2/3",
    "a"), ("Mul", "1/3", "a"), ("Mul", "-1", "a", "b"), ("Mul", "-2", "a", "b"), ("Pow", "a", "b"),
    ("Pow", "a", ("Mul", "-1", "b")), ("Pow", "a", ("Mul", "-2", "b"))]


def siblings() -> Iterator[Any]:
    """two applications of one function to similar arguments in one expression (a printer that
    remembers what it has printed must keep them apart): sum, weighted difference, quotient"""
    for f in ("exp", "sin", "log", "sqrt"):
        for a1, a2 in itertools.permutations(SIBLING_ARGS, 2):
            yield ("Add", (f, a1), (f, a2))
            yield ("Add", (f, a1), ("Mul", "-3", (f, a2)))
            yield ("Mul", (f, a1), ("Pow", (f, a2), "-1"))


def signed_powers() -> Iterator[Any]:
    """powers of sums whose sign a printer may want to pull out, inside products and sums, with
    every kind of exponent (numbers, symbols, integer symbols of unknown parity)"""
    for base in ("-a-b", "-a-2", ("Add", "a", ("Mul", "-1", "b"))):
        for e in EXPS + ["n", "n+1", "-n", "3", "-3"]:
            pw = ("Pow", base, e)
            yield pw
            for m in ("c", ("Mul", "-1", "c"), "2", "-3", ("Pow", "c", "-1")):
                yield ("Mul", m, pw)
            yield ("Add", "c", pw)
            yield ("Add", "c", ("Mul", "-1", pw))
            yield ("Mul", "c", pw, ("Pow", "-a-2", "n"))


EDGE_TERMS = ["a", ("Pow", ("Add", "a", "b"), "2"), ("Pow", "-2", "a"), ("sin", "c"), ("Pow", "c",
    ("Mul", "-1", "a")), ("Pow", "c", "3/2"), ("Mul", ("Add", "a", "b"), ("Pow", "c", "-1")), ("Mul",
    "c", ("Add", "a", "n")), ("Pow", ("Mul", "w", "v"), "c"), ("exp", "a"), ("Mul", "2", "a"), ("Mul",
    "-1", "b"), ("Pow", ("Add", "a", "c"), "b"), ("Abs", "v")]


def bracket_edges() -> Iterator[Any]:
    """sums of two terms whose renderings begin and / or end with a bracket, in every position where
    the sum itself needs brackets (numerator, denominator, factor, base, argument): a printer that
    decides about brackets by looking at the *text* of an operand must keep them"""
    for t1, t2 in itertools.combinations(EDGE_TERMS, 2):
        s_ = ("Add", t1, t2)
        yield s_
        yield ("Mul", s_, ("Pow", "w", "-1"))
        yield ("Mul", s_, "w")
        yield ("Mul", "w", ("Pow", s_, "-1"))
        yield ("Pow", s_, "2")
        yield ("Pow", s_, "b")
        yield ("sin", s_)
        yield ("Mul", s_, ("Pow", ("Add", "w", "3"), "-1"))
        p_ = ("Mul", t1, t2)
        yield ("Mul", p_, ("Pow", "w", "-1"))
        yield ("Pow", p_, "b")
        yield ("Add", p_, "w")


def space(thorough: bool) -> Iterator[Any]:
    yield from LEAVES
    yield from siblings()
    yield from signed_powers()
    yield from bracket_edges()
    yield from complex_family()
    t1 = list(explore.level1(LEAVES, COMM, UNARY, EXPS, MEDIUM))
    yield from t1
    yield from explore.level_up(t1, LEAVES, COMM, UNARY, EXPS, MEDIUM if thorough else REDUCED)
    if thorough:
        t1r = list(explore.level1(REDUCED, COMM, UNARY, ["-1", "2", "1/2", "-1/2", "b"]))
        t2r = list(explore.level_up(t1r, REDUCED, COMM, UNARY, ["-1", "2", "1/2", "b"], ["2", "a"]))
        yield from explore.level_up(t2r, REDUCED, COMM, UNARY, ["-1", "2", "-1/2"], ["2", "a"])
        yield from explore.pairs_up(t1r, COMM)


# ---- catalogue equations in source form -----------------------------------------------------------


def source_members(modname: str, with_directives: bool = False) -> list:
    """documented formula members (name, value in source form) of a catalogue module, obtained the
    way the documentation obtains them"""
    from symplyphysics.docs.parse import find_members_and_functions
    from symplyphysics.docs.patch import patch_sympy_evaluate
    from sympy.core.parameters import global_parameters
    path = os.path.join(catalogue.REPO, modname.replace(".", os.sep))
    path = os.path.join(path, "__init__.py") if os.path.isdir(path) else path + ".py"
    with open(path, encoding="utf-8") as f:
        tree = ast.parse(f.read())
    if ast.get_docstring(tree) is None:
        return []
    cwd = os.getcwd()
    try:
        tree = patch_sympy_evaluate(tree)
        members, _ = find_members_and_functions(tree)
    finally:
        global_parameters.evaluate = True  # this loader does not test the flag (C19 does)
        os.chdir(cwd)
    out = []
    for m in members:
        if m.directives and isinstance(m.value, (sp.Basic, list, tuple)):
            if with_directives:
                out.append((m.name, m.value, {d.directive_type.name for d in m.directives}))
            else:
                out.append((m.name, m.value))
    return out


def float_conditioned(e: Any, rep: dict, want: Any, tol: float) -> bool:
    """False if the value of ``e`` moves by more than the comparison tolerance when its Float
    leaves move in their last printed digit (a float is printed with 15 digits; e.g. sin(1e-10**-b)
    takes the sine of 1e22): such a case cannot be judged by comparing values"""
    fl = e.atoms(sp.Float)
    if not fl:
        return True
    from . import values
    try:
        bumped = e.xreplace({f: sp.Float(f, 40) * (1 + sp.Float("1e-15", 40)) for f in fl})
        other = values.mpc(sp.N(bumped.xreplace(rep), 40))
    except Exception:  # pylint: disable=broad-except
        return False
    if not values.close(other, want, tol * 100, 1e-38):
        return False
    # ... and the float evaluation itself must be stable: with the floats taken as the exact
    # rationals they are, and more digits, the value is the same ((-1)**1e65 is 1 in float
    # arithmetic only because every float that large is an even integer)
    try:
        exact = e.xreplace({f: sp.Rational(f) for f in fl})
        val = values.mpc(sp.N(exact.xreplace(rep), 120))
    except Exception:  # pylint: disable=broad-except
        return False
    return values.close(val, want, tol * 100, 1e-38)


# ---- matrices: containers of canonical expressions (the catalogue's matrix laws are 2x2 / vectors) ---

MATRIX_ENTRIES = ["a", ("Add", "b", "2"), ("Mul", "a", "b"), ("Mul", "a", ("Pow", "c", "-1")),
    ("Mul", "-1", "c"), ("Pow", "a", "2"), ("sqrt", "b"), "1/2", ("exp", ("Mul", "-1", "a"))]


def matrix_space() -> Iterator[tuple[int, int, int]]:
    """(rows, cols, rotation of the entry menu): all shapes up to 3 x 3, entries pairwise distinct"""
    for r in (1, 2, 3):
        for c in (1, 2, 3):
            for rot in (0, 4):
                yield (r, c, rot)


def matrix_entries(r: int, c: int, rot: int) -> list[list[Any]]:
    menu = MATRIX_ENTRIES[rot:] + MATRIX_ENTRIES[:rot]
    return [[build(menu[i * c + j]) for j in range(c)] for i in range(r)]


def split_top(text: str, sep: str, opening: str = "([{", closing: str = ")]}") -> list[str]:
    """split at separators that are not inside brackets"""
    out, depth, cur, i = [], 0, "", 0
    while i < len(text):
        ch = text[i]
        if ch in opening:
            depth += 1
        elif ch in closing:
            depth -= 1
        if depth == 0 and text.startswith(sep, i):
            out.append(cur)
            cur = ""
            i += len(sep)
            continue
        cur += ch
        i += 1
    out.append(cur)
    return [x.strip() for x in out]


def point_value(text: str) -> Any:
    """exact sympy number of a point coordinate given as text ('3/7', '3/10+4*I')"""
    return sp.nsimplify(sp.sympify(text), rational=True)


def point_mp(text: str) -> Any:
    import mpmath
    v = point_value(text)
    re_, im_ = v.as_real_imag()
    to = lambda r: mpmath.mpf(sp.Rational(r).p) / sp.Rational(r).q
    return mpmath.mpc(to(re_), to(im_)) if im_ != 0 else to(re_)


def complex_family() -> Iterator[Any]:
    """trees over symbols without assumptions: sympy keeps exp(w)**v, sqrt(w**2), log(exp(w)) ...
    apart from their 'simplified' forms, which differ off the real axis; evaluated at complex
    points"""
    ws = ["w", "v"]
    inner = ["w", ("Mul", "2", "w"), ("Mul", "w", "v"), ("Pow", "w", "2"), ("Add", "w", "v")]
    for f in ("exp", "sqrt", "log"):
        for x in inner:
            fx = (f, x)
            yield fx
            for e in ("v", "1/2", "-1/2", "2", "1/3", ("Mul", "-1", "v")):
                yield ("Pow", fx, e)
                yield ("Mul", "v", ("Pow", fx, e))
            for g in ("exp", "sqrt", "log"):
                yield (g, fx)
    for x in inner:
        for e in ("1/2", "1/3", "v", "-1/2"):
            yield ("Pow", ("Pow", x, "2"), e)
            yield ("Pow", ("Mul", x, "v"), e)

"""Generic bounded enumerators shared by the tree-shaped checks.

A tree description is a leaf name (str) or a tuple (op, child, ...).  Commutative operators take
their children as multisets (symmetry reduction: permuting operands of Add/Mul/Min/Max yields the
same sympy object)."""
from __future__ import annotations

import itertools
from typing import Any, Iterator, Sequence


def level1(leaves: Sequence[str], comm: Sequence[str], unary: Sequence[str],
    exps: Sequence[str], tern: Sequence[str] = ()) -> Iterator[Any]:
    """all trees with exactly one internal node"""
    for op in comm:
        for c in itertools.combinations_with_replacement(leaves, 2):
            yield (op, ) + c
        for c in itertools.combinations_with_replacement(tern, 3):
            yield (op, ) + c
    for b in leaves:
        for e in exps:
            yield ("Pow", b, e)
    for op in unary:
        for a in leaves:
            yield (op, a)


def level_up(trees: Sequence[Any], partners: Sequence[str], comm: Sequence[str],
    unary: Sequence[str], exps: Sequence[str], bases: Sequence[str]) -> Iterator[Any]:
    """one more internal node on top of each tree, the other operand being a leaf"""
    for t in trees:
        for op in comm:
            for p in partners:
                yield (op, t, p)
        for e in exps:
            yield ("Pow", t, e)
        for b in bases:
            yield ("Pow", b, t)
        for op in unary:
            yield (op, t)


def pairs_up(trees: Sequence[Any], comm: Sequence[str]) -> Iterator[Any]:
    """binary commutative node over two one-node trees (3 internal nodes, balanced shape)"""
    for op in comm:
        for a, b in itertools.combinations_with_replacement(trees, 2):
            yield (op, a, b)


def tup(x: Any) -> Any:
    """JSON round trip turns tuples into lists; undo"""
    return tuple(tup(i) for i in x) if isinstance(x, list) else x


def chunked(items: Sequence[Any], n: int) -> list[Sequence[Any]]:
    return [items[i:i + n] for i in range(0, len(items), n)]

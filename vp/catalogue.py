"""Catalogue access: module discovery, decorator recording, equation and function discovery,
default-argument synthesis.

Decorator recording needs no hook in /repo: before any catalogue module is imported the names
``validate_input`` / ``validate_output`` (as exported by ``symplyphysics`` and by
``symplyphysics.core.quantity_decorator``) are rebound to thin wrappers that note the declaration
on the decorated function and then delegate to the genuine decorator.
"""
from __future__ import annotations

import importlib
import inspect
import os
from fractions import Fraction
from typing import Any, Iterator, Optional

from . import dims

# the tree under test: /repo, unless a scratch worktree is named (used only by tools_seed.py to run
# seeded changes without touching /repo)
REPO = os.environ.get("VERIF_REPO", "/repo")
PKG = "symplyphysics"
TREES = ("laws", "definitions", "conditions")

_installed = False


def discover() -> list[str]:
    """dotted names of all catalogue modules and packages, alphabetical"""
    out = []
    for tree in TREES:
        base = os.path.join(REPO, PKG, tree)
        for dirpath, dirnames, filenames in os.walk(base):
            dirnames.sort()
            rel = os.path.relpath(dirpath, REPO).replace(os.sep, ".")
            for fn in sorted(filenames):
                if not fn.endswith(".py"):
                    continue
                if fn == "__init__.py":
                    out.append(rel)
                else:
                    out.append(rel + "." + fn[:-3])
    return sorted(set(out))


def install_recorders() -> None:
    global _installed
    if _installed:
        return
    import symplyphysics
    from symplyphysics.core import quantity_decorator as qd
    real_in, real_out, real_same = qd.validate_input, qd.validate_output, qd.validate_output_same

    def validate_input(**kw: Any) -> Any:
        deco = real_in(**kw)

        def wrap(func: Any) -> Any:
            w = deco(func)
            w._vp_input = dict(kw)
            w._vp_inner = getattr(func, "_vp_inner", func)
            return w

        return wrap

    def validate_output(expected: Any) -> Any:
        deco = real_out(expected)

        def wrap(func: Any) -> Any:
            w = deco(func)
            w._vp_output = expected
            w._vp_inner = getattr(func, "_vp_inner", func)
            return w

        return wrap

    def validate_output_same(name: str) -> Any:
        deco = real_same(name)

        def wrap(func: Any) -> Any:
            w = deco(func)
            w._vp_output_same = name
            w._vp_inner = getattr(func, "_vp_inner", func)
            return w

        return wrap

    qd.validate_input, qd.validate_output, qd.validate_output_same = (validate_input,
        validate_output, validate_output_same)
    symplyphysics.validate_input = validate_input
    symplyphysics.validate_output = validate_output
    _installed = True


def load(name: str) -> Any:
    install_recorders()
    return importlib.import_module(name)


def is_equation(v: Any) -> bool:
    import sympy as sp
    from sympy.core.relational import Relational
    from sympy.logic.boolalg import BooleanFunction
    if isinstance(v, Relational):
        return True
    if isinstance(v, BooleanFunction) and v.atoms(Relational):
        return True
    return False


def equations(mod: Any) -> list[tuple[str, Any]]:
    """public attributes that are relations / boolean combinations of relations, or lists/tuples
    of them (flattened as name[i])"""
    out = []
    for n, v in vars(mod).items():
        if n.startswith("_"):
            continue
        if is_equation(v):
            out.append((n, v))
        elif isinstance(v, (list, tuple)) and v and all(is_equation(x) for x in v):
            for i, x in enumerate(v):
                out.append((f"{n}[{i}]", x))
    return out


def functions(mod: Any) -> list[tuple[str, Any]]:
    """public functions defined in this module (decorated or not)"""
    out = []
    for n, v in vars(mod).items():
        if n.startswith("_") or not callable(v) or inspect.isclass(v):
            continue
        inner = getattr(v, "_vp_inner", v)
        if not inspect.isfunction(inner):
            continue
        if getattr(inner, "__module__", None) != mod.__name__:
            continue
        out.append((n, v))
    return out


def spec(fn: Any) -> dict:
    inner = getattr(fn, "_vp_inner", fn)
    return {
        "inputs": getattr(fn, "_vp_input", {}),
        "output": getattr(fn, "_vp_output", None),
        "output_same": getattr(fn, "_vp_output_same", None),
        "inner": inner,
        "signature": inspect.signature(inner),
        "decorated": hasattr(fn, "_vp_inner"),
    }


def closure_spec(fn: Any) -> dict:
    """cross-check: the same information read from the genuine decorator's closures"""
    ins: dict[str, Any] = {}
    out = None
    f = fn
    while f is not None:
        try:
            nl = inspect.getclosurevars(f).nonlocals
        except TypeError:
            break
        if "decorator_kwargs" in nl:
            ins.update(nl["decorator_kwargs"])
        if "expected_unit" in nl and "param_name" not in nl:
            out = nl["expected_unit"]
        f = getattr(f, "__wrapped__", None)
    return {"inputs": ins, "output": out}


# ---- dimensions of declarations and SI units ------------------------------------------------------


def declared_dim(decl: Any) -> Any:
    """sympy Dimension of a guard declaration (Dimension / Symbol / Function / Symbolic)"""
    from sympy.physics.units import Dimension
    if isinstance(decl, Dimension):
        return decl
    return decl.dimension


def si_unit_of(dv: dims.DimVec) -> Any:
    from sympy.physics import units as U
    import sympy as sp
    table = dict(zip(dims.BASES, (U.meter, U.kilogram, U.second, U.ampere, U.kelvin, U.mole,
        U.candela)))
    e = sp.S.One
    for b, x in dv.e.items():
        if b not in table:
            raise ValueError(f"no SI unit for base {b}")
        if not isinstance(x, Fraction):
            raise ValueError("symbolic exponent")
        e = e * table[b]**sp.Rational(x.numerator, x.denominator)
    return e

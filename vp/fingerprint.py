"""Value fingerprints of a loaded catalogue module (C03): the same numbers must come out whatever
the history of the process was.  Symbols are identified by *stable* keys (attribute names, display
names), never by their generated names."""
from __future__ import annotations

import hashlib
from typing import Any, Optional

import sympy as sp
from sympy.physics.units import Quantity as SymQuantity

from . import catalogue, dims, values
from .harness import time_limit, CaseTimeout


def _h(key: str, salt: str = "") -> sp.Rational:
    n = int(hashlib.sha1((salt + key).encode()).hexdigest()[:8], 16)
    return sp.Rational(3 + n % 997, 7 + (n // 997) % 211)  # generic positive rational


class Env:

    def __init__(self, mod: Any):
        self.mod = mod
        self.keys: dict[Any, str] = {}
        self._collect()

    def _collect(self) -> None:
        import symplyphysics.symbols as S
        from symplyphysics.core.symbols.symbols import DimensionSymbol
        for n in sorted(vars(S)):
            v = getattr(S, n)
            if isinstance(v, DimensionSymbol) and v not in self.keys:
                try:
                    self.keys[v] = f"symbols.{n}"
                except TypeError:
                    pass
        for n in sorted(vars(self.mod)):
            v = vars(self.mod)[n]
            try:
                if isinstance(v, DimensionSymbol) and v not in self.keys:
                    self.keys[v] = n
            except TypeError:
                pass

    def key(self, obj: Any) -> str:
        k = self.keys.get(obj)
        if k is not None:
            return k
        dn = getattr(obj, "display_name", None)
        if dn is not None and not str(dn).startswith(("SYM", "FUN", "QTY")):
            d = getattr(obj, "dimension", "")
            return f"?{dn}|{getattr(d, 'name', d)}"
        if isinstance(obj, SymQuantity):
            return f"?qty|{sp.N(obj.scale_factor, 12)}|{obj.dimension.name}"
        return f"?{type(obj).__name__}|{getattr(obj, 'dimension', '')}"

    def value_of(self, expr: Any) -> Optional[str]:
        """30-digit value of an expression at the fixed environment, as a string; None if it
        cannot be evaluated"""
        rep: dict = {}
        used: dict[str, Any] = {}
        ambiguous = False
        for f in expr.atoms(sp.core.function.AppliedUndef):
            k = self.key(f.func)
            c = _h(k, "fun")
            body = c
            for i, a in enumerate(f.args):
                body = body + (i + 2) * a**(i + 1) / 5
            rep[f] = body
        e = expr
        if rep:
            drep = {d: d.xreplace(rep).doit() for d in e.atoms(sp.Derivative)}
            e = e.xreplace(drep).xreplace(rep)
        srep = {}
        for s in e.free_symbols | e.atoms(sp.IndexedBase):
            if isinstance(s, sp.Idx) or isinstance(s, sp.Indexed):
                continue
            k = self.key(s)
            if k in used and used[k] is not s:
                ambiguous = True
            used[k] = s
            srep[s] = _h(k)
        for q in e.atoms(SymQuantity):
            srep[q] = q.scale_factor
        if ambiguous:
            return None
        try:
            ind = {i: i.xreplace(srep) for i in e.atoms(sp.Indexed)}
            for i, iv in list(ind.items()):
                # an indexed symbol x[i] takes a value depending on its index expression
                b = i.base
                ind[i] = _h(self.key(b)) + sum((j.xreplace(srep) if not isinstance(j, sp.Idx) else
                    sp.Symbol(str(j))) for j in i.indices) / 3
            e2 = e.xreplace(ind).xreplace(srep)
            e2 = e2.doit()
            v = sp.N(e2, 30)
            if v.free_symbols or v.atoms(sp.core.function.AppliedUndef, sp.Integral, sp.Derivative,
                    sp.Sum):
                return None
            return str(sp.N(v, 20))
        except Exception:
            return None


def structural(expr: Any, env: Env) -> str:
    """fallback: order-insensitive bag of leaf keys and node types"""
    bag: dict[str, int] = {}
    for n in sp.preorder_traversal(expr):
        if isinstance(n, sp.core.function.AppliedUndef):
            k = "apply:" + env.key(n.func)
        elif n.args and not isinstance(n, SymQuantity):
            k = type(n).__name__
        elif isinstance(n, (sp.Symbol, SymQuantity)) or hasattr(n, "display_name"):
            k = env.key(n)
        else:
            k = str(n)
        bag[k] = bag.get(k, 0) + 1
    return "bag:" + ";".join(f"{k}*{v}" for k, v in sorted(bag.items()))


def module_fingerprint(mod: Any, with_functions: bool, budget: float = 8.0) -> dict[str, str]:
    env = Env(mod)
    out: dict[str, str] = {}
    # declared meaning of the module's own symbols: display names, dimension, assumptions
    from symplyphysics.core.symbols.symbols import DimensionSymbol
    for n in sorted(vars(mod)):
        v = vars(mod)[n]
        if n.startswith("_") or not isinstance(v, DimensionSymbol):
            continue
        try:
            assum = sorted((k, b) for k, b in getattr(v, "assumptions0", {}).items()) if hasattr(v,
                "assumptions0") else []
            out[f"sym:{n}"] = f"{v.display_name}|{v.display_latex}|{v.dimension.name}|{assum}"
        except Exception:
            pass
    for attr, eq in catalogue.equations(mod):
        try:
            with time_limit(budget):
                if hasattr(eq, "lhs"):
                    l, r = env.value_of(eq.lhs), env.value_of(eq.rhs)
                    out[f"eq:{attr}"] = (f"{type(eq).__name__}|{l}|{r}" if l is not None and r is not
                        None else structural(eq, env))
                else:
                    out[f"eq:{attr}"] = structural(eq, env)
        except CaseTimeout:
            out[f"eq:{attr}"] = "timeout"
        except Exception as ex:
            out[f"eq:{attr}"] = structural(eq, env)
    if with_functions:
        from . import args as A
        from .checks.c02 import si_struct
        for fname, fn in catalogue.functions(mod):
            sp_ = catalogue.spec(fn)
            if not (sp_["decorated"] or fname.startswith("calculate_")):
                continue
            params, why = A.plan(fn, mod)
            if why:
                continue
            if any(p.kind == "free" for p in params) and not A.resolve_free(fn, params, mod):
                continue
            try:
                with time_limit(20):
                    r = fn(**A.call_args(params))
                    st = si_struct(r)
                out[f"fn:{fname}"] = _round(st)
            except CaseTimeout:
                out[f"fn:{fname}"] = "timeout"
            except Exception as ex:
                out[f"fn:{fname}"] = f"raises {type(ex).__name__}"
    return out


def _round(st: Any) -> str:
    import mpmath
    if isinstance(st, list):
        return "[" + ",".join(_round(x) for x in st) + "]"
    return mpmath.nstr(st, 11)


def compare(base: dict[str, str], other: dict[str, str]) -> list[str]:
    diffs = []
    for k in sorted(set(base) | set(other)):
        a, b = base.get(k), other.get(k)
        if a == b:
            continue
        if a is None or b is None:
            diffs.append(f"{k}: present in only one history ({a!r} vs {b!r})")
            continue
        if "timeout" in (a, b):
            continue
        if _close_str(a, b):
            continue
        diffs.append(f"{k}: {a} vs {b}")
    return diffs


def _close_str(a: str, b: str) -> bool:
    """numeric fields equal to 1e-10 relative"""
    import re
    num = re.compile(r"-?\d+\.?\d*(?:e[-+]?\d+)?")
    ta, tb = num.split(a), num.split(b)
    if ta != tb:
        return False
    na, nb = num.findall(a), num.findall(b)
    if len(na) != len(nb):
        return False
    for x, y in zip(na, nb):
        fx, fy = float(x), float(y)
        if abs(fx - fy) > 1e-9 * max(abs(fx), abs(fy), 1e-300):
            return False
    return True

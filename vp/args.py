"""Argument synthesis for catalogue calculation functions (shared by C02, C03, C04).

A *plan* describes, per parameter, how to build its value from a magnitude and a unit spelling;
``realise(plan, choice)`` turns a tuple of per-parameter choices into actual call arguments.
"""
from __future__ import annotations

import typing
from fractions import Fraction
from typing import Any, Optional

import sympy as sp

from . import catalogue, dims

M0 = [1.7, 2.3, 0.9, 3.1, 1.3, 2.9, 0.7, 3.7, 1.1, 2.1, 1.9, 3.3]


class Param:
    """kind: 'quantity' | 'number' | 'int' | 'seq' | 'tupledecl' | 'qvector' | 'unsupported'"""

    def __init__(self, name: str, kind: str, dim: Optional[dims.DimVec], decl: Any, pos: int,
        why: str = "", n: int = 0, elems: Optional[list] = None):
        self.name, self.kind, self.dim, self.decl, self.pos = name, kind, dim, decl, pos
        self.why, self.n, self.elems = why, n, elems or []
        self.shape: Any = None
        self.m0 = M0[pos % len(M0)] * (1 + pos // len(M0))


def _ann(a: Any) -> str:
    return str(a)


def _shape(ann: Any) -> Any:
    """'Q' quantity slot, 'F' number slot, tuple of shapes for fixed tuples; None if unsupported"""
    s = str(ann)
    if s == "<class 'symplyphysics.core.symbols.quantities.Quantity'>":
        return "Q"
    if s in ("<class 'float'>", "<class 'int'>"):
        return "F"
    if s in ("symplyphysics.core.symbols.quantities.Quantity | float",
            "float | symplyphysics.core.symbols.quantities.Quantity"):
        return "Q"
    if s.startswith("tuple["):
        parts = [_shape(a) for a in typing.get_args(ann)]
        if parts and all(x is not None for x in parts):
            return tuple(parts)
    return None


def _has_q(shape: Any) -> bool:
    return shape == "Q" or (isinstance(shape, tuple) and any(_has_q(x) for x in shape))


def plan(fn: Any, mod: Any = None) -> tuple[list[Param], str]:
    """returns (params, reason); reason != '' if the function cannot be driven.  With ``mod`` given,
    unguarded quantity-typed parameters become 'free' parameters whose dimension is found by trial
    among the dimensions of the module's own symbols (resolve_free)."""
    from sympy.physics.units import Dimension
    sp_ = catalogue.spec(fn)
    params: list[Param] = []
    for pos, p in enumerate(sp_["signature"].parameters.values()):
        if p.kind in (p.VAR_POSITIONAL, p.VAR_KEYWORD):
            return params, f"variadic parameter {p.name}"
        ann = _ann(p.annotation)
        decl = sp_["inputs"].get(p.name)
        if decl is None:
            if ann in ("<class 'float'>", ) or "float" in ann and "Quantity" not in ann and \
                    "tuple" not in ann and "Sequence" not in ann:
                params.append(Param(p.name, "number", dims.ONE, None, pos))
            elif ann == "<class 'int'>" or ann.startswith("int |"):
                params.append(Param(p.name, "int", dims.ONE, None, pos))
            elif ann == "<class 'symplyphysics.core.symbols.probability.Probability'>":
                prm = Param(p.name, "number", dims.ONE, None, pos)
                prm.m0 = prm.m0 / 5  # inside [0, 1]; scaled deviations that leave it are refused
                prm.wrap = "Probability"
                params.append(prm)
            elif p.default is not p.empty:
                params.append(Param(p.name, "default", None, None, pos))
            elif mod is not None and _shape(p.annotation) is not None and _has_q(_shape(
                    p.annotation)):
                prm = Param(p.name, "free", None, None, pos)
                prm.shape = _shape(p.annotation)
                params.append(prm)
            else:
                return params, f"unguarded parameter {p.name}: {ann}"
            continue
        if isinstance(decl, (tuple, list)):
            try:
                elems = [dims.of_dimension(catalogue.declared_dim(d)) for d in decl]
            except Exception as ex:
                return params, f"declaration of {p.name}: {ex}"
            params.append(Param(p.name, "tupledecl", None, decl, pos, elems=elems))
            continue
        try:
            dv = dims.of_dimension(catalogue.declared_dim(decl))
        except Exception as ex:
            return params, f"declaration of {p.name}: {ex}"
        if isinstance(dv, dims.AnyDim):
            dv = dims.ONE
            anyd = True
        else:
            anyd = False
        if dv.symbolic:
            return params, f"symbolic dimension for {p.name}"
        if "QuantityVector" in ann and ("Sequence[" in ann or "Iterable[" in ann or ann.startswith(
                "list[")):
            params.append(Param(p.name, "qvseq", dv, decl, pos, n=3))
        elif "QuantityVector" in ann:
            params.append(Param(p.name, "qvector", dv, decl, pos, n=3))
        elif "Sequence" in ann or ann.startswith("list[") or "Iterable" in ann:
            params.append(Param(p.name, "seq", dv, decl, pos, n=3))
        elif ann.startswith("tuple["):
            args = typing.get_args(p.annotation)
            params.append(Param(p.name, "seq", dv, decl, pos, n=max(1, len(args))))
        elif ann == "<class 'int'>":
            params.append(Param(p.name, "int", dv, decl, pos))
        elif ann == "<class 'float'>" and dv.dimensionless:
            params.append(Param(p.name, "number", dv, decl, pos))
        else:
            params.append(Param(p.name, "quantity", dv, decl, pos, why="any" if anyd else ""))
    return params, ""


def resolve_free(fn: Any, params: list[Param], mod: Any) -> bool:
    """find, by trial, one dimension for the unguarded quantity slots that the function accepts
    (candidates: the dimensions of the module's own symbols, simplest name first)"""
    free = [p for p in params if p.kind == "free"]
    if not free:
        return True
    from symplyphysics.core.symbols.symbols import DimensionSymbol
    cands: list[dims.DimVec] = []
    for n in sorted(vars(mod)):
        v = vars(mod)[n]
        if isinstance(v, DimensionSymbol):
            try:
                d = dims.of_dimension(v.dimension)
            except Exception:
                continue
            if isinstance(d, dims.DimVec) and not d.symbolic and d not in cands:
                cands.append(d)
    cands = sorted(cands, key=lambda d: (len(d.e), repr(d))) + ([dims.ONE] if dims.ONE not in cands
        else [])
    for d in cands[:8]:
        for p in free:
            p.kind, p.dim = "nested", d
        try:
            fn(**call_args(params))
            return True
        except Exception:
            continue
    for p in free:
        p.kind, p.dim = "free", None
    return False


# unit spellings ---------------------------------------------------------------------------------

_NAMED = [  # (dimension vector, unit name in sympy.physics.units, SI factor)
    (dims.L, "centimeter", Fraction(1, 100)),
    (dims.M, "gram", Fraction(1, 1000)),
    (dims.T, "minute", Fraction(60)),
    (dims.M * dims.L**2 / dims.T**2, "electronvolt", None),
    (dims.L**3, "liter", Fraction(1, 1000)),
    (dims.M / (dims.L * dims.T**2), "bar", Fraction(100000)),
    (dims.L / dims.T, None, None),
]


def quantity(dv: dims.DimVec, magnitude: Any, spelling: str = "si") -> Any:
    """a Quantity of SI value ``magnitude`` and dimension dv, written in the given spelling"""
    from symplyphysics import Quantity
    from symplyphysics.core.symbols.prefixes import prefixes
    from sympy.physics import units as U
    unit = catalogue.si_unit_of(dv)
    # 60-digit magnitudes: the library computes with sympy numbers, so float64 cancellation inside
    # a formula (exp(x) - 1 at tiny x ...) does not masquerade as a wrong formula
    magnitude = sp.Float(repr(float(magnitude)), 60)
    if spelling == "si" or dv.dimensionless:
        return Quantity(magnitude * unit)
    if spelling == "kilo":
        return Quantity((magnitude / 1000) * prefixes.kilo * unit)
    if spelling == "milli":
        return Quantity((magnitude * 1000) * prefixes.milli * unit)
    if spelling == "named":
        # rewrite the SI unit product with centimetre / gram / minute
        e = sp.S.One
        factor = sp.Float(1, 60)
        table = {"length": (U.centimeter, 0.01), "mass": (U.gram, 0.001), "time": (U.minute, 60.0)}
        baseunits = dict(zip(dims.BASES, (U.meter, U.kilogram, U.second, U.ampere, U.kelvin,
            U.mole, U.candela)))
        for b, x in dv.e.items():
            xr = sp.Rational(x.numerator, x.denominator)
            if b in table:
                u, f = table[b]
                e = e * u**xr
                factor = factor * sp.Float(repr(f), 60)**sp.Rational(x.numerator, x.denominator)
            else:
                e = e * baseunits[b]**xr
        return Quantity((magnitude / factor) * e)
    raise ValueError(spelling)


def realise_param(p: Param, scale: float = 1.0, spelling: str = "si", vshape: str = "") -> Any:
    from symplyphysics import Quantity, QuantityVector
    m = p.m0 * scale
    if p.kind == "quantity":
        return quantity(p.dim, m, spelling)
    if p.kind == "number":
        if getattr(p, "wrap", "") == "Probability":
            from symplyphysics.core.symbols.probability import Probability
            return Probability(m)
        return m
    if p.kind == "int":
        return max(1, int(round(2 + p.pos)))
    if p.kind == "seq":
        return [quantity(p.dim, m * (1 + 0.3 * i), spelling) for i in range(p.n)]
    if p.kind == "tupledecl":
        return [quantity(d if not isinstance(d, dims.AnyDim) else dims.ONE, m * (1 + 0.3 * i),
            spelling) for i, d in enumerate(p.elems)]
    if p.kind == "nested":
        counter = [0]

        def mk(shape: Any) -> Any:
            if isinstance(shape, tuple):
                return tuple(mk(x) for x in shape)
            counter[0] += 1
            mm = m * (1 + 0.3 * (counter[0] - 1))
            return quantity(p.dim, mm, spelling) if shape == "Q" else float(mm)

        return mk(p.shape)
    if p.kind == "qvector":
        if vshape == "axis":
            # vector parameters along different axes: mutually perpendicular
            return QuantityVector([quantity(p.dim, m if i == p.pos % 3 else 0, spelling) for i in
                range(p.n)])
        # components not proportional to those of the vector at another position
        return QuantityVector([quantity(p.dim, m * (1 + 0.3 * i + 0.17 * p.pos * i * i), spelling)
            for i in range(p.n)])
    if p.kind == "qvseq":
        return [QuantityVector([quantity(p.dim, m * (1 + 0.3 * i + 0.17 * (j + 1) * i * i + 0.4 * j),
            spelling) for i in range(3)]) for j in range(p.n)]
    raise ValueError(p.kind)


def call_args(params: list[Param], scales: Optional[dict] = None,
    spellings: Optional[dict] = None) -> dict:
    scales, spellings = scales or {}, spellings or {}
    return {p.name: realise_param(p, scales.get(p.name, 1.0), spellings.get(p.name, "si"),
        str(scales.get("__vshape__", ""))) for p in params if p.kind not in ("default", "free")}

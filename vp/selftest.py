"""Setup / self-test: offline sanity of the framework (no build step is needed).
python -m vp.selftest"""
from __future__ import annotations

import sys


def main() -> int:
    import sympy
    import symplyphysics  # noqa: F401  (the repo must be importable from /repo)
    from . import dims
    from sympy.physics import units
    from sympy.physics.units.systems.si import dimsys_SI
    # reference dimension table agrees with sympy's on every derived name
    for name, vec in dims.DERIVED.items():
        d = getattr(units, name, None)
        if d is None or name == "angle":
            continue
        deps = dimsys_SI.get_dimensional_dependencies(d)
        got = {str(k.name): v for k, v in deps.items()}
        want = {k: sympy.Rational(v.numerator, v.denominator) for k, v in vec.e.items()}
        assert got == want, (name, got, want)
    print("vp selftest ok: sympy", sympy.__version__, "symplyphysics at", symplyphysics.__file__)
    return 0


if __name__ == "__main__":
    sys.exit(main())

"""Shared plumbing of all checks: case accounting, violations / replays / known findings,
evidence writing, worker pool.

A check is a module ``vp.checks.cXX`` with

    PROPERTY = "CXX"
    LEVEL    = "exploration" | "model_checking"
    def main(run: Run) -> None      # explore, call run.case / run.violation, then run.finish(...)
    def replay(case: dict) -> list[str]   # re-run one recorded case, return violation texts

Nothing here imports symplyphysics, so the module is importable before a check has decided how
(and in which process) the library is to be loaded.
"""
from __future__ import annotations

import hashlib
import json
import multiprocessing as mp
import os
import signal
import sys
import time
import traceback
from collections import Counter
from typing import Any, Callable, Iterable, Optional

ROOT = os.path.dirname(os.path.dirname(os.path.abspath(__file__)))
# seeded-change runs (tools_seed.py) redirect evidence and replays so that the committed evidence,
# which must come from /repo itself, is never overwritten by them
EVIDENCE_DIR = os.environ.get("VERIF_EVIDENCE_DIR") or os.path.join(ROOT, "evidence")
REPLAY_DIR = os.environ.get("VERIF_REPLAY_DIR") or os.path.join(ROOT, "replays")
KNOWN_FINDINGS = os.path.join(ROOT, "known_findings.json")
NCPU = int(os.environ.get("VERIF_JOBS", "0")) or min(16, os.cpu_count() or 1)


def short(x: Any, n: int = 200) -> str:
    """str() that never raises (huge integers) and never gets long"""
    try:
        s = str(x)
    except Exception as ex:  # pylint: disable=broad-except
        s = f"<unprintable {type(x).__name__}: {type(ex).__name__}>"
    return s if len(s) <= n else s[:n] + "..."


def jdump(obj: Any) -> str:
    return json.dumps(obj, sort_keys=True, default=str)


def sha(obj: Any) -> str:
    return hashlib.sha1(jdump(obj).encode()).hexdigest()[:16]


class CaseTimeout(BaseException):
    pass


class time_limit:
    """SIGALRM budget for one case (main thread of a worker only)."""

    def __init__(self, seconds: float):
        self.seconds = seconds

    def _raise(self, *_a: Any) -> None:
        raise CaseTimeout()

    def __enter__(self) -> "time_limit":
        self.old = signal.signal(signal.SIGALRM, self._raise)
        signal.setitimer(signal.ITIMER_REAL, self.seconds)
        return self

    def __exit__(self, *exc: Any) -> bool:
        signal.setitimer(signal.ITIMER_REAL, 0)
        signal.signal(signal.SIGALRM, self.old)
        return False


def load_known() -> list[dict]:
    try:
        with open(KNOWN_FINDINGS) as f:
            return json.load(f)["findings"]
    except FileNotFoundError:
        return []


class Run:

    def __init__(self, prop: str, level: str, tier: str, seed: int):
        self.prop = prop
        self.level = level
        self.tier = tier
        self.seed = seed
        self.t0 = time.time()
        self.evaluations = 0
        self.distinct: set[str] = set()
        self.outcomes: Counter[str] = Counter()
        self.samples: list[Any] = []
        self.violations: list[dict] = []
        self.known_hits: list[dict] = []
        self.undecided: list[dict] = []
        self.notes: dict[str, Any] = {}
        self.states = 0
        self.transitions = 0
        self.traces = 0
        self._known = [k for k in load_known() if k.get("property") == prop and
            k.get("status") == "known"]
        self._seen_viol: set[str] = set()
        d = os.path.join(REPLAY_DIR, prop)
        if os.path.isdir(d):  # replays of earlier runs are stale
            for fn in os.listdir(d):
                if fn.endswith(".json"):
                    os.unlink(os.path.join(d, fn))
        self._seen_known: set[str] = set()

    # ---- accounting -------------------------------------------------------------------------
    @property
    def thorough(self) -> bool:
        return self.tier == "thorough"

    def case(self, key: Optional[str] = None, nontrivial: bool = True, outcome: Optional[str] = None,
        n: int = 1) -> None:
        self.evaluations += n
        if key is not None and nontrivial:
            self.distinct.add(key if len(key) < 40 else sha(key))
        if outcome is not None:
            self.outcomes[outcome] += n

    def sample(self, obj: Any, cap: int = 12) -> None:
        if len(self.samples) < cap:
            self.samples.append(obj)

    def note(self, **kw: Any) -> None:
        self.notes.update(kw)

    def undecide(self, key: str, why: str) -> None:
        self.outcomes["undecided"] += 1
        if len(self.undecided) < 200:
            self.undecided.append({"key": key, "why": why})

    # ---- violations -------------------------------------------------------------------------
    def violation(self, key: str, what: str, case: dict) -> None:
        """key: stable identity of the failing case (module+attribute, canonical input ...)."""
        for k in self._known:
            if k["key"] == key or (k.get("match") == "prefix" and key.startswith(k["key"])):
                if k["key"] not in self._seen_known:
                    self._seen_known.add(k["key"])
                    self.known_hits.append(k)
                    print(f"KNOWN-FINDING: property={self.prop} {k['key']}: {k['what']}", flush=True)
                self.outcomes["known_finding"] += 1
                return
        if key in self._seen_viol:
            return
        self._seen_viol.add(key)
        rec = {"property": self.prop, "key": key, "what": what, "case": case}
        d = os.path.join(REPLAY_DIR, self.prop)
        os.makedirs(d, exist_ok=True)
        path = os.path.join(d, sha([key, case]) + ".json")
        with open(path, "w") as f:
            json.dump(rec, f, indent=1, sort_keys=True, default=str)
        self.violations.append({"key": key, "what": what[:600], "replay": path})
        self.outcomes["violation"] += 1
        if len(self.violations) <= 40:
            print(f"VIOLATION property={self.prop} replay={path}", flush=True)
            print(f"  {key}: {what[:400]}", flush=True)

    def absorb(self, results: Iterable[dict]) -> None:
        """Merge worker results: dicts with optional keys n, key, nontrivial, outcome, sample,
        violations=[(key, what, case)], undecided=[(key, why)], keys=[...], outcomes={..}."""
        for r in results:
            if r is None:
                continue
            if "keys" in r:
                for k in r["keys"]:
                    self.distinct.add(k if len(k) < 40 else sha(k))
            if "outcomes" in r:
                for k, v in r["outcomes"].items():
                    self.outcomes[k] += v
            self.case(r.get("key"), r.get("nontrivial", True), r.get("outcome"), r.get("n", 1))
            if "sample" in r and r["sample"] is not None:
                self.sample(r["sample"])
            for s in r.get("samples", []):
                self.sample(s)
            for v in r.get("violations", []):
                self.violation(*v)
            for u in r.get("undecided", []):
                self.undecide(*u)
            self.states += r.get("states", 0)
            self.transitions += r.get("transitions", 0)
            self.traces += r.get("traces", 0)

    # ---- evidence ---------------------------------------------------------------------------
    def finish(self, rule: str, exhaustive: bool, assumptions: list[str],
        extra: Optional[dict] = None) -> int:
        cov: dict[str, Any] = {
            "evaluations": self.evaluations,
            "distinct_nontrivial": len(self.distinct),
            "rule": rule,
            "samples": self.samples[:12],
            "exhaustive": exhaustive,
            "distinct_outcomes": dict(self.outcomes),
            "undecided": self.undecided[:50],
            "undecided_count": self.outcomes.get("undecided", 0),
            "known_findings_hit": [k["key"] for k in self.known_hits],
        }
        if self.level == "model_checking":
            cov["states"] = self.states
            cov["transitions"] = self.transitions
            cov["traces_validated_against_impl"] = self.traces
        cov.update(self.notes)
        if extra:
            cov.update(extra)
        ev = {
            "property_id": self.prop,
            "tier": self.tier,
            "seed": self.seed,
            "level": self.level,
            "coverage": cov,
            "assumptions": assumptions,
            "wall_s": round(time.time() - self.t0, 2),
            "violations": len(self.violations),
            "violation_list": self.violations[:40],
        }
        os.makedirs(EVIDENCE_DIR, exist_ok=True)
        tmp = os.path.join(EVIDENCE_DIR, f".{self.prop}.{os.getpid()}.tmp")
        with open(tmp, "w") as f:
            json.dump(ev, f, indent=1, sort_keys=True, default=str)
        os.replace(tmp, os.path.join(EVIDENCE_DIR, f"{self.prop}.json"))
        print(f"[{self.prop}] tier={self.tier} seed={self.seed} evaluations={self.evaluations} "
            f"distinct={len(self.distinct)} outcomes={dict(self.outcomes)} "
            f"violations={len(self.violations)} known={len(self.known_hits)} "
            f"wall={ev['wall_s']}s", flush=True)
        return 1 if self.violations else 0


# ---- worker pool ------------------------------------------------------------------------------

_WORK: Optional[Callable[[Any], Any]] = None


def _call(item: Any) -> Any:
    assert _WORK is not None
    try:
        return _WORK(item)
    except CaseTimeout:
        return {"n": 1, "undecided": [(repr(item)[:200], "timeout")]}
    except Exception as ex:  # a harness error must never look like silence
        tb = traceback.extract_tb(ex.__traceback__)
        if tb and "/symplyphysics/" in tb[-1].filename and "/verif/" not in tb[-1].filename:
            # the library itself crashed on an explored case: that is a finding, not a harness bug
            where = f"{os.path.basename(tb[-1].filename)}:{tb[-1].lineno}"
            return {"n": 1, "violations": [(f"crash:{type(ex).__name__}@{where}:{repr(item)[:80]}",
                f"library raised {type(ex).__name__}: {short(ex, 200)} at {where} while exploring "
                f"{repr(item)[:200]}", {"item": repr(item)[:500], "crash": True})]}
        return {"n": 0, "harness_error": traceback.format_exc(), "item": repr(item)[:300]}


def pmap(func: Callable[[Any], Any], items: list, jobs: int = 0, chunksize: int = 1,
    init: Optional[Callable[[], None]] = None, fresh: bool = False) -> Iterable[Any]:
    """Fork-based unordered map. ``func`` and everything it closes over are inherited by fork, so
    they may be closures over live library objects."""
    global _WORK
    jobs = jobs or NCPU
    _WORK = func
    if jobs <= 1 or len(items) <= 1:
        if init:
            init()
        for it in items:
            yield _check_err(_call(it))
        return
    ctx = mp.get_context("fork")
    user_init = init

    def init() -> None:  # type: ignore[no-redef]
        # `kill -USR1 <worker pid>` prints the worker's Python stack (diagnosing slow cases)
        import faulthandler
        faulthandler.register(signal.SIGUSR1, all_threads=False)
        if user_init:
            user_init()

    # fresh=True: every item runs in a process newly forked from this one (items that mutate
    # process-global state must not see each other)
    with ctx.Pool(jobs, initializer=init, maxtasksperchild=1 if fresh else None) as pool:
        for r in pool.imap_unordered(_call, items, chunksize):
            yield _check_err(r)


def _check_err(r: Any) -> Any:
    if isinstance(r, dict) and "harness_error" in r:
        sys.stderr.write(f"HARNESS ERROR on {r['item']}:\n{r['harness_error']}\n")
        raise SystemExit(2)
    return r


def rotate(items: list, seed: int) -> list:
    """VERIF_SEED only rotates enumeration order; the set is unchanged."""
    if not items:
        return items
    k = seed % len(items)
    return items[k:] + items[:k]

"""Reference dimension calculus: a dimension is a mapping base -> exponent (Fraction, or a sympy
expression when the source has a symbolic exponent on a dimensional base).  ``angle`` is erased.
Written from the SI brochure's table of derived quantities; it does not consult
``sympy.physics.units.systems.si.dimsys_SI`` (the self-test compares the two).
"""
from __future__ import annotations

from fractions import Fraction
from typing import Any, Optional, Union

import sympy as sp

BASES = ("length", "mass", "time", "current", "temperature", "amount_of_substance",
    "luminous_intensity")

Exp = Union[Fraction, sp.Expr]


class DimVec:
    __slots__ = ("e", )

    def __init__(self, e: Optional[dict[str, Exp]] = None):
        d: dict[str, Exp] = {}
        for k, v in (e or {}).items():
            v = _norm(v)
            if v != 0:
                d[k] = v
        self.e = d

    def __mul__(self, o: "DimVec") -> "DimVec":
        d = dict(self.e)
        for k, v in o.e.items():
            d[k] = _add(d.get(k, Fraction(0)), v)
        return DimVec(d)

    def __truediv__(self, o: "DimVec") -> "DimVec":
        return self * (o**-1)

    def __pow__(self, p: Any) -> "DimVec":
        p = _norm(p)
        return DimVec({k: _mul(v, p) for k, v in self.e.items()})

    def __eq__(self, o: object) -> bool:
        if not isinstance(o, DimVec):
            return NotImplemented
        keys = set(self.e) | set(o.e)
        for k in keys:
            a, b = self.e.get(k, Fraction(0)), o.e.get(k, Fraction(0))
            if isinstance(a, Fraction) and isinstance(b, Fraction):
                if a != b:
                    return False
            else:
                if sp.simplify(sp.nsimplify(_sym(a) - _sym(b))) != 0:
                    return False
        return True

    def __hash__(self) -> int:
        return hash(tuple(sorted((k, str(v)) for k, v in self.e.items())))

    @property
    def dimensionless(self) -> bool:
        return not self.e

    @property
    def symbolic(self) -> bool:
        return any(not isinstance(v, Fraction) for v in self.e.values())

    def __repr__(self) -> str:
        if not self.e:
            return "1"
        return "*".join(f"{k}^{v}" if v != 1 else k for k, v in sorted(self.e.items()))

    def key(self) -> tuple:
        return tuple(sorted((k, str(v)) for k, v in self.e.items()))


def _sym(v: Exp) -> sp.Expr:
    if isinstance(v, Fraction):
        return sp.Rational(v.numerator, v.denominator)
    return v


def _norm(v: Any) -> Exp:
    if isinstance(v, Fraction):
        return v
    if isinstance(v, int):
        return Fraction(v)
    if isinstance(v, float):
        return Fraction(v).limit_denominator(10**6)
    v = sp.sympify(v)
    if v.is_Rational:
        return Fraction(int(v.p), int(v.q))
    if v.is_Float:
        return Fraction(float(v)).limit_denominator(10**6)
    if v.is_number and v.is_real:
        try:
            r = sp.nsimplify(v, rational=True)
            if r.is_Rational and abs(float(r) - float(v)) < 1e-12:
                return Fraction(int(r.p), int(r.q))
        except Exception:
            pass
    return v


def _add(a: Exp, b: Exp) -> Exp:
    if isinstance(a, Fraction) and isinstance(b, Fraction):
        return a + b
    return _norm(sp.expand(_sym(a) + _sym(b)))


def _mul(a: Exp, b: Exp) -> Exp:
    if isinstance(a, Fraction) and isinstance(b, Fraction):
        return a * b
    return _norm(sp.expand(_sym(a) * _sym(b)))


ONE = DimVec()


def base(name: str) -> DimVec:
    return DimVec({name: Fraction(1)})


L, M, T, I, TH, N, J = (base(b) for b in BASES)

# Derived quantities (SI brochure, table 4, plus the mechanical ones sympy names).
DERIVED: dict[str, DimVec] = {
    "angle": ONE,
    "velocity": L / T,
    "speed": L / T,
    "acceleration": L / T**2,
    "momentum": M * L / T,
    "force": M * L / T**2,
    "energy": M * L**2 / T**2,
    "power": M * L**2 / T**3,
    "pressure": M / (L * T**2),
    "frequency": T**-1,
    "action": M * L**2 / T,
    "area": L**2,
    "volume": L**3,
    "charge": I * T,
    "voltage": M * L**2 / (T**3 * I),
    "impedance": M * L**2 / (T**3 * I**2),
    "conductance": T**3 * I**2 / (M * L**2),
    "capacitance": T**4 * I**2 / (M * L**2),
    "inductance": M * L**2 / (T**2 * I**2),
    "magnetic_density": M / (T**2 * I),
    "magnetic_flux": M * L**2 / (T**2 * I),
}


class AnyDim:
    """Wildcard: matches every dimension (zero, infinities, NaN, any_dimension symbols)."""

    def __repr__(self) -> str:
        return "ANY"


ANY = AnyDim()


def of_dimension(dim: Any) -> Union[DimVec, AnyDim]:
    """Exponent vector of a sympy ``Dimension`` (or of its ``name`` expression)."""
    name = getattr(dim, "name", dim)
    return _of_name(sp.sympify(name))


def _of_name(n: sp.Expr) -> Union[DimVec, AnyDim]:
    if n.is_Number:
        return ONE
    if isinstance(n, sp.Symbol):
        s = n.name
        if s == "any_dimension":
            return ANY
        if s in BASES:
            return base(s)
        if s in DERIVED:
            return DERIVED[s]
        return base(s)  # unknown base (e.g. information): kept as its own axis
    if isinstance(n, sp.Mul):
        r: Union[DimVec, AnyDim] = ONE
        for a in n.args:
            d = _of_name(a)
            if isinstance(d, AnyDim) or isinstance(r, AnyDim):
                r = ANY
            else:
                r = r * d
        return r
    if isinstance(n, sp.Pow):
        b = _of_name(n.base)
        if isinstance(b, AnyDim):
            return ANY
        return b**n.exp
    if hasattr(n, "name"):
        return _of_name(sp.sympify(n.name))
    raise ValueError(f"cannot read dimension name {n!r}")


def same(a: Union[DimVec, AnyDim], b: Union[DimVec, AnyDim]) -> bool:
    if isinstance(a, AnyDim) or isinstance(b, AnyDim):
        return True
    return a == b

"""Reference R^3 arithmetic on plain tuples of sympy expressions (missing components are zero),
curvilinear position maps and local frames, and textbook differential operators obtained from the
Cartesian ones by the chain rule.  Nothing here imports symplyphysics."""
from __future__ import annotations

from typing import Any, Callable, Sequence

import sympy as sp

Vec = tuple


def pad(v: Sequence[Any], n: int = 3) -> Vec:
    v = tuple(sp.sympify(x) for x in v)
    return v + (sp.S.Zero, ) * (n - len(v))


def add(a: Sequence[Any], b: Sequence[Any]) -> Vec:
    a, b = pad(a), pad(b)
    return tuple(x + y for x, y in zip(a, b))


def sub(a: Sequence[Any], b: Sequence[Any]) -> Vec:
    a, b = pad(a), pad(b)
    return tuple(x - y for x, y in zip(a, b))


def scale(k: Any, a: Sequence[Any]) -> Vec:
    return tuple(k * x for x in pad(a))


def dot(a: Sequence[Any], b: Sequence[Any]) -> Any:
    a, b = pad(a), pad(b)
    return sum((x * y for x, y in zip(a, b)), sp.S.Zero)


def cross(a: Sequence[Any], b: Sequence[Any]) -> Vec:
    (a1, a2, a3), (b1, b2, b3) = pad(a), pad(b)
    return (a2 * b3 - a3 * b2, a3 * b1 - a1 * b3, a1 * b2 - a2 * b1)


def norm2(a: Sequence[Any]) -> Any:
    return dot(a, a)


def is_zero(e: Any) -> bool:
    """exact normal form: polynomial / rational identity"""
    e = sp.sympify(e)
    if e == 0:
        return True
    n, _ = sp.fraction(sp.together(e))
    if sp.expand(n) == 0:
        return True
    return sp.simplify(e) == 0


def vec_equal(a: Sequence[Any], b: Sequence[Any]) -> bool:
    return all(is_zero(x - y) for x, y in zip(pad(a), pad(b)))


# ---- curvilinear geometry --------------------------------------------------------------------------
# ordering of the library: cylindrical (r, theta, z); spherical (r, theta = azimuth, phi = polar)


def position(system: str, q: Sequence[Any]) -> Vec:
    q1, q2, q3 = q
    if system == "cartesian":
        return (q1, q2, q3)
    if system == "cylindrical":
        return (q1 * sp.cos(q2), q1 * sp.sin(q2), q3)
    if system == "spherical":
        return (q1 * sp.cos(q2) * sp.sin(q3), q1 * sp.sin(q2) * sp.sin(q3), q1 * sp.cos(q3))
    raise ValueError(system)


def frame(system: str, q: Sequence[Any]) -> tuple[list[Vec], list[Any]]:
    """unit vectors e_j = (d position / d q_j) / h_j and the scale factors h_j"""
    pos = position(system, q)
    es, hs = [], []
    for qj in q:
        d = tuple(sp.diff(p, qj) for p in pos)
        h = sp.sqrt(sp.simplify(sum(x**2 for x in d)))
        h = sp.simplify(h)
        es.append(tuple(sp.simplify(x / h) for x in d))
        hs.append(h)
    return es, hs


# ---- differential operators by the chain rule (no curvilinear formula is typed in) ------------------


class ChainRule:
    """Cartesian gradient / divergence / curl of fields given in curvilinear coordinates q, expressed
    in the local orthonormal frame.  d/dx_i = sum_k (dq_k/dx_i) d/dq_k with the inverse Jacobian of
    the position map."""

    def __init__(self, system: str, q: Sequence[Any]):
        self.system, self.q = system, tuple(q)
        pos = position(system, q)
        J = sp.Matrix(3, 3, lambda i, k: sp.diff(pos[i], q[k]))  # dx_i / dq_k
        self.Jinv = sp.simplify(J.inv())  # dq_k / dx_i  at [k, i]
        self.e, self.h = frame(system, q)

    def ddx(self, f: Any, i: int) -> Any:
        return sum(self.Jinv[k, i] * sp.diff(f, self.q[k]) for k in range(3))

    def to_cart(self, F: Sequence[Any]) -> Vec:
        F = pad(F)
        return tuple(sum(F[j] * self.e[j][i] for j in range(3)) for i in range(3))

    def project(self, V: Sequence[Any]) -> Vec:
        return tuple(sum(V[i] * self.e[j][i] for i in range(3)) for j in range(3))

    def grad(self, f: Any) -> Vec:
        return self.project(tuple(self.ddx(f, i) for i in range(3)))

    def div(self, F: Sequence[Any]) -> Any:
        C = self.to_cart(F)
        return sum(self.ddx(C[i], i) for i in range(3))

    def curl(self, F: Sequence[Any]) -> Vec:
        C = self.to_cart(F)
        cc = (self.ddx(C[2], 1) - self.ddx(C[1], 2), self.ddx(C[0], 2) - self.ddx(C[2], 0),
            self.ddx(C[1], 0) - self.ddx(C[0], 1))
        return self.project(cc)

"""Reference unit table (SI factors typed from the SI brochure / CODATA, not read from sympy) and
numeric comparison helpers."""
from __future__ import annotations

from fractions import Fraction as F
from typing import Any

import mpmath
import sympy as sp

from . import dims
from .dims import I, J, L, M, N, ONE, T, TH

mpmath.mp.dps = 80

_PI = sp.pi

# unit name (as in sympy.physics.units) -> (exact SI factor as sympy number, dimension vector)
UNITS: dict[str, tuple[Any, dims.DimVec]] = {
    "meter": (1, L),
    "kilometer": (1000, L),
    "decimeter": (F(1, 10), L),
    "centimeter": (F(1, 100), L),
    "millimeter": (F(1, 1000), L),
    "micrometer": (F(1, 10**6), L),
    "nanometer": (F(1, 10**9), L),
    "picometer": (F(1, 10**12), L),
    "inch": (F(254, 10000), L),
    "foot": (F(3048, 10000), L),
    "yard": (F(9144, 10000), L),
    "mile": (F(1609344, 1000), L),
    # nautical_mile, astronomical_unit: sympy 1.14 ships 6076 ft and the pre-2012 au; these are
    # sympy's data, not symplyphysics' conversion logic, and are left out of the table
    "angstrom": (F(1, 10**10), L),
    "kilogram": (1, M),
    "gram": (F(1, 1000), M),
    "milligram": (F(1, 10**6), M),
    "microgram": (F(1, 10**9), M),
    "tonne": (1000, M),
    "pound": (F(45359237, 100000000), M),
    "second": (1, T),
    "millisecond": (F(1, 1000), T),
    "microsecond": (F(1, 10**6), T),
    "nanosecond": (F(1, 10**9), T),
    "minute": (60, T),
    "hour": (3600, T),
    "day": (86400, T),
    "ampere": (1, I),
    "kelvin": (1, TH),
    "mole": (1, N),
    "candela": (1, J),
    "newton": (1, M * L / T**2),
    "joule": (1, M * L**2 / T**2),
    "watt": (1, M * L**2 / T**3),
    "pascal": (1, M / (L * T**2)),
    "hertz": (1, T**-1),
    "coulomb": (1, I * T),
    "volt": (1, M * L**2 / (T**3 * I)),
    "ohm": (1, M * L**2 / (T**3 * I**2)),
    "siemens": (1, T**3 * I**2 / (M * L**2)),
    "farad": (1, T**4 * I**2 / (M * L**2)),
    "henry": (1, M * L**2 / (T**2 * I**2)),
    "tesla": (1, M / (T**2 * I)),
    "weber": (1, M * L**2 / (T**2 * I)),
    "liter": (F(1, 1000), L**3),
    "deciliter": (F(1, 10000), L**3),
    "centiliter": (F(1, 100000), L**3),
    "milliliter": (F(1, 10**6), L**3),
    "hectare": (10000, L**2),
    "bar": (100000, M / (L * T**2)),
    "atmosphere": (101325, M / (L * T**2)),
    "kilopascal": (1000, M / (L * T**2)),
    "psi": (sp.Rational(45359237, 100000000) * sp.Rational(980665, 100000) /
        sp.Rational(254, 10000)**2, M / (L * T**2)),
    "mmHg": (sp.Rational(133322387415, 10**9), M / (L * T**2)),  # conventional millimetre of mercury
    "electronvolt": (sp.Rational(1602176634, 10**28), M * L**2 / T**2),
    "radian": (1, ONE),
    "degree": (_PI / 180, ONE),
    "percent": (F(1, 100), ONE),
    "permille": (F(1, 1000), ONE),
    "dioptre": (1, L**-1),
    "katal": (1, N / T),
    "gray": (1, L**2 / T**2),
    "becquerel": (1, T**-1),
    "lux": (1, J / L**2),
}

PREFIXES = {
    "yotta": 24, "zetta": 21, "exa": 18, "peta": 15, "tera": 12, "giga": 9, "mega": 6, "kilo": 3,
    "hecto": 2, "deca": 1, "deci": -1, "centi": -2, "milli": -3, "micro": -6, "nano": -9,
    "pico": -12, "femto": -15, "atto": -18, "zepto": -21, "yocto": -24,
}


def S(x: Any) -> sp.Expr:
    if isinstance(x, F):
        return sp.Rational(x.numerator, x.denominator)
    return sp.sympify(x)


def unit_factor(name: str) -> sp.Expr:
    return S(UNITS[name][0])


def unit_dim(name: str) -> dims.DimVec:
    return UNITS[name][1]


def raw_to_si(raw: Any, dim: dims.DimVec) -> mpmath.mpc:
    """sympy keeps scale factors gram-based; SI value = raw * 1000**(-mass exponent)."""
    mexp = dim.e.get("mass", F(0))
    if not isinstance(mexp, F):
        raise ValueError("symbolic mass exponent")
    return mpc(raw) * mpmath.power(1000, -mpmath.mpf(mexp.numerator) / mexp.denominator)


def mpc(x: Any) -> mpmath.mpc:
    v = sp.N(x, 80)
    if v.has(sp.nan):
        return mpmath.mpc("nan")
    re_, im_ = v.as_real_imag()
    return mpmath.mpc(_mpf(re_), _mpf(im_))


def _mpf(x: Any) -> mpmath.mpf:
    if x == sp.oo:
        return mpmath.inf
    if x == -sp.oo:
        return -mpmath.inf
    return mpmath.mpf(str(sp.N(x, 80)))


def close(a: Any, b: Any, rel: float = 1e-12, abs_: float = 0.0) -> bool:
    a, b = mpmath.mpmathify(a), mpmath.mpmathify(b)
    if a == b:
        return True
    if mpmath.isnan(a) or mpmath.isnan(b):
        return bool(mpmath.isnan(a) and mpmath.isnan(b))
    if mpmath.isinf(a) or mpmath.isinf(b):
        return False
    return bool(abs(a - b) <= max(rel * max(abs(a), abs(b)), abs_))


def is_absorbing(v: Any) -> bool:
    """zero, +-infinity, NaN (as exact sympy values)"""
    v = sp.sympify(v)
    return bool(v == 0) or v in (sp.oo, -sp.oo, sp.nan) or (v.is_number and v.is_zero is True)


# "generic" positive rationals for lattice evaluation
LATTICE = [sp.Rational(*p) for p in ((3, 7), (11, 5), (13, 3), (17, 9), (19, 11), (23, 13),
    (29, 8), (31, 17), (37, 19), (41, 23), (43, 12), (47, 29))]

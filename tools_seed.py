#!/usr/bin/env python3
"""Confirm a seeded property-breaking change and run the checks against it.

  tools_seed.py <candidate dir> <seed id> [--checks C05,C06 | --all] [--tier quick]

<candidate dir> holds patch.diff, demo.py, meta.json as written by a sub-agent.
1. scratch worktree of /repo HEAD: demo passes; apply patch: demo fails, whole suite still green.
2. apply the patch to /repo, run the registered checks, undo (git checkout -- .).
3. keep the change as /verif/seeded/<seed id>/ with what was run and what was seen.
"""
import json
import os
import shutil
import subprocess
import sys
import time

VERIF = os.path.dirname(os.path.abspath(__file__))
PY = "/venv/bin/python"


def sh(cmd, cwd=None, timeout=3600, env=None):
    p = subprocess.run(cmd, cwd=cwd, shell=isinstance(cmd, str), capture_output=True, text=True,
        timeout=timeout, env=env)
    return p.returncode, p.stdout + p.stderr


def main() -> int:
    cand, sid = sys.argv[1], sys.argv[2]
    args = sys.argv[3:]
    tier = "quick"
    if "--tier" in args:
        tier = args[args.index("--tier") + 1]
    meta = json.load(open(os.path.join(cand, "meta.json")))
    recheck = os.path.abspath(cand) == os.path.abspath(os.path.join(VERIF, "seeded", sid))
    prop = meta.get("property", sid.split("_")[0])[:3].upper() if meta.get("property") else sid[:3]
    prop = sid.split("_")[0]
    checks = [prop]
    if "--checks" in args:
        checks = args[args.index("--checks") + 1].split(",")
    if "--all" in args:
        checks = [c["property_id"] for c in json.load(open(os.path.join(VERIF, "MANIFEST.json")))[
            "checks"]]
    patch = os.path.abspath(os.path.join(cand, "patch.diff"))
    demo = os.path.abspath(os.path.join(cand, "demo.py"))
    report = {"seed": sid, "property": prop, "summary": meta.get("summary"), "needs": meta.get(
        "needs"), "files": meta.get("files"), "ran": []}
    if recheck:
        report.update({k: meta.get(k) for k in ("summary", "needs", "files", "confirmation",
            "confirmed", "ran", "initial_detected_by", "note") if k in meta})
        report["property"] = meta["property"]
    # 1. confirmation in a scratch worktree
    wt = f"/tmp/wt/confirm_{sid}"
    sh(f"git -C /repo worktree remove --force {wt}")
    rc, out = (0, "") if recheck else sh(f"git -C /repo worktree add --detach {wt} HEAD -q")
    if rc:
        print(out)
        return 2
    try:
        if recheck:
            raise StopIteration
        env = dict(os.environ, PYTHONPATH=wt, PYTHONDONTWRITEBYTECODE="1")
        rc0, o0 = sh([PY, demo], cwd=wt, env=env, timeout=900)
        rc, out = sh(f"git apply {patch}", cwd=wt)
        if rc:
            print("patch does not apply:", out)
            return 2
        rc1, o1 = sh([PY, demo], cwd=wt, env=env, timeout=900)
        t = time.time()
        rcs, os_ = sh([PY, "-m", "pytest", "-q", "-p", "no:cacheprovider", "-n", "8",
            "--timeout=900"], cwd=wt, timeout=3000)
        summary = os_.strip().splitlines()[-1] if os_.strip() else ""
        report["confirmation"] = {"demo_unpatched_exit": rc0, "demo_patched_exit": rc1,
            "suite_exit": rcs, "suite_summary": summary, "suite_wall_s": round(time.time() - t)}
        print(f"[confirm] demo unpatched exit={rc0} patched exit={rc1}; suite: {summary}")
        report["ran"].append(f"scratch worktree {wt}: demo.py before/after patch; pytest -n 8")
        ok = rc0 == 0 and rc1 != 0 and rcs == 0
        report["confirmed"] = ok
    except StopIteration:
        pass
    finally:
        sh(f"git -C /repo worktree remove --force {wt}")
    if not report["confirmed"]:
        print("NOT CONFIRMED:", json.dumps(report["confirmation"]))
        print(o0[-500:], o1[-500:])
    # 2. the checks against the patched tree.  The patch is applied to a scratch worktree of /repo's
    # HEAD and the checks are pointed at it (VERIF_REPO), with evidence / replays / scratch redirected,
    # so that /repo itself and the committed evidence are never touched and several seeds (or a
    # background run on /repo) can go on at the same time.  `git -C /repo apply` + checkout is
    # equivalent and is what --in-repo does.
    in_repo = "--in-repo" in args
    run_wt = "/repo" if in_repo else f"/tmp/wt/run_{sid}"
    side = f"/tmp/wt/run_{sid}_out"
    if in_repo:
        rc, out = sh("git -C /repo status --porcelain")
        if out.strip():
            print("/repo is not clean:", out)
            return 2
    else:
        sh(f"git -C /repo worktree remove --force {run_wt}")
        rc, out = sh(f"git -C /repo worktree add --detach {run_wt} HEAD -q")
        if rc:
            print(out)
            return 2
    rc, out = sh(f"git apply {patch}", cwd=run_wt)
    if rc:
        print("patch does not apply:", out)
        if not in_repo:
            sh(f"git -C /repo worktree remove --force {run_wt}")
        return 2
    env = dict(os.environ)
    if not in_repo:
        env.update(VERIF_REPO=run_wt, VERIF_EVIDENCE_DIR=side + "/evidence", VERIF_REPLAY_DIR=side +
            "/replays", VERIF_SCRATCH_DIR=side + "/scratch")
    results = {}
    try:
        for c in checks:
            t = time.time()
            rc, out = sh(["./check", c, tier], cwd=VERIF, timeout=7200, env=env)
            viol = [l for l in out.splitlines() if l.startswith("VIOLATION")]
            first = ""
            lines = out.splitlines()
            for i, l in enumerate(lines):
                if l.startswith("VIOLATION") and i + 1 < len(lines):
                    first = lines[i + 1].strip()[:300]
                    break
            results[c] = {"exit": rc, "violations": len(viol), "first": first, "wall_s": round(
                time.time() - t, 1)}
            print(f"[check] {c} {tier}: exit={rc} violations={len(viol)} {first[:160]}")
            report["ran"].append(f"patch applied to a scratch worktree; VERIF_REPO=<worktree> ./check {c} {tier}")
    finally:
        if in_repo:
            sh("git -C /repo checkout -- .")
            sh("git -C /repo clean -fdq -- symplyphysics")
        else:
            sh(f"git -C /repo worktree remove --force {run_wt}")
            shutil.rmtree(side, ignore_errors=True)
    report["checks"] = results
    report["detected_by"] = sorted(c for c, r in results.items() if r["exit"] == 1 and
        r["violations"])
    # 3. keep
    dest = os.path.join(VERIF, "seeded", sid)
    os.makedirs(dest, exist_ok=True)
    if not recheck:
        shutil.copy(patch, os.path.join(dest, "patch.diff"))
        shutil.copy(demo, os.path.join(dest, "demo.py"))
    old = {}
    mp = os.path.join(dest, "meta.json")
    if os.path.exists(mp):
        old = json.load(open(mp))
        if "initial_detected_by" not in report:
            report["initial_detected_by"] = old.get("initial_detected_by", old.get("detected_by", []))
        prev = old.get("checks", {})
        prev.update(results)
        report["checks"] = prev
        report["detected_by"] = sorted(c for c, r in prev.items() if r["exit"] == 1 and
            r["violations"])
    report.setdefault("initial_detected_by", report["detected_by"])
    json.dump(report, open(mp, "w"), indent=1)
    print(f"[seed {sid}] confirmed={report['confirmed']} detected_by={report['detected_by']}")
    return 0


if __name__ == "__main__":
    sys.exit(main())

#!/usr/bin/env python3
"""Regenerate MUTANTS.md from seeded/*/meta.json."""
import glob, json, os
V = os.path.dirname(os.path.abspath(__file__))
rows = []
for mp in sorted(glob.glob(os.path.join(V, "seeded", "*", "meta.json"))):
    m = json.load(open(mp))
    checks = m.get("checks", {})
    det = m.get("detected_by", [])
    own = m["property"]
    first = m.get("initial_detected_by", det)
    caught = "yes" if own in det and own in first else ("yes, after strengthening" if own in det else
        ("no - outside the property's space (see note)" if m.get("out_of_scope") else "MISSED"))
    rows.append((m["seed"], own, "yes" if m.get("confirmed") else "NO", caught,
        ", ".join(d for d in det if d != own) or "-", (m.get("summary") or "")[:160].replace("|", "/"),
        (m.get("needs") or "")[:140].replace("|", "/"), (m.get("note") or "").replace("|", "/")))
with open(os.path.join(V, "MUTANTS.md"), "w") as f:
    f.write("# Seeded property-breaking changes\n\nProduced by independent sub-agents that saw only the "
        "text of one property and a private worktree (see DESIGN.md 9.4). *confirmed* = demo passes on "
        "HEAD, fails with the patch, and the unedited suite (2568 tests) stays green with the patch, "
        "all re-run by `tools_seed.py` in a scratch worktree. *caught* = the property's own quick check "
        "exits 1 with a VIOLATION line when the patch is applied to /repo.\n\n")
    f.write("| seed | property | confirmed | caught by own check | also caught by | change | needs | note |\n|---|---|---|---|---|---|---|---|\n")
    for r in rows:
        f.write("| " + " | ".join(r) + " |\n")
    f.write(f"\n{len(rows)} seeds, {sum(1 for r in rows if r[3].startswith('yes'))} caught by their own check.\n")
    f.write(open(os.path.join(V, "MUTANTS_manual.md")).read() if os.path.exists(os.path.join(V, "MUTANTS_manual.md")) else "")
print(f"{len(rows)} seeds")

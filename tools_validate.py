#!/opt/veriftools/pyvenv/bin/python
"""Validate MANIFEST.json and every evidence file against the schemas (run with python3-vt)."""
import glob, json, sys
import jsonschema
ms = json.load(open('/root/.vp/MANIFEST.schema.json')); es = json.load(open('/root/.vp/EVIDENCE.schema.json'))
m = json.load(open('/verif/MANIFEST.json')); jsonschema.validate(m, ms)
bad = 0
for c in m['checks']:
    try:
        e = json.load(open(c['evidence_file'])); jsonschema.validate(e, es)
        assert e['property_id'] == c['property_id'] and e['level'] == c['level_claimed']['category']
    except Exception as ex:
        bad += 1; print('BAD', c['property_id'], str(ex)[:200])
print('manifest ok;', len(m['checks']), 'checks;', bad, 'bad evidence files')
sys.exit(1 if bad else 0)

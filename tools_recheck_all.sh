#!/bin/bash
# re-run every kept seeded change against the current checks (quick tier of its own property, plus
# any other check recorded as detecting it); two streams in parallel.  Output: one line per seed.
cd "$(dirname "$0")"
ids=$(ls seeded | sort)
run() { for id in "$@"; do ./tools_seed.py seeded/$id $id 2>&1 | grep "^\[seed" ; done; }
a=(); b=(); i=0
for id in $ids; do if [ $((i % 2)) -eq 0 ]; then a+=($id); else b+=($id); fi; i=$((i+1)); done
run "${a[@]}" & run "${b[@]}" & wait
